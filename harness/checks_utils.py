"""C19: hexdump / dumpstruct / pack / unpack / swap.  E1 = MC_Hexdump; E2 = tokenised real output judged by Trace_Utils."""
from __future__ import annotations

import random
import re

from harness import absyn as A
from harness import codec, tlc
from harness.checks_codec import run_mc

ANSI = re.compile(r"\x1b\[[0-9;]*m")
ENDIANS = ["little", "big", "network", "<", ">", "!"]


def tokenize_lines(text, prefix):
    """Real hexdump text -> [{offset, hex, ascii, colors}] or None when a line does not have the dump format at all."""
    lines = []
    ok_prefix = True
    for raw in text.split("\n"):
        colors = len(ANSI.findall(raw))
        s = ANSI.sub("", raw)
        if not s.startswith(prefix):
            ok_prefix = False
        s = s[len(prefix):]
        m = re.match(r"([0-9a-f]{8})  ", s)
        if not m:
            return None, ok_prefix
        rest = s[10:]
        hexbytes, pos, cells = [], 0, 0
        while pos + 3 <= len(rest) and cells < 16:
            cell = rest[pos:pos + 3]
            if re.fullmatch(r"[0-9a-f]{2} ", cell):
                hexbytes.append(int(cell[:2], 16))
            elif cell != "   ":
                break
            pos += 3
            cells += 1
            if cells % 8 == 0 and cells % 16 != 0 and rest[pos:pos + 1] == " ":
                pos += 1
        tail = rest[pos:]
        if tail[:2] != "  ":
            return None, ok_prefix
        asc = tail[2:]          # the text column (it may itself start with a space character)
        lines.append({"offset": int(m.group(1), 16), "hex": hexbytes, "ascii": [ord(c) for c in asc], "colors": colors})
    return lines, ok_prefix


def hexdump_record(rid, rnd):
    from dissect.cstruct import utils

    n = rnd.choice([0, 1, 15, 16, 17, 31, 32, 33, rnd.randrange(0, 80)])
    data = bytes(rnd.choice([0, 0x20, 0x41, 0x7E, 0x7F, 0x80, 0xFF, rnd.randrange(256)]) for _ in range(n))
    start = rnd.choice([0, 0, 16, 0x1000, 12345])
    prefix = rnd.choice(["", "", "> ", "[x] "])
    cols = [utils.COLOR_RED, utils.COLOR_BG_BLUE, utils.COLOR_GREEN, utils.COLOR_BG_WHITE]
    palette = [(rnd.choice([0, 1, 2, 7, 8, 15, 16, 17, 40]), rnd.choice(cols)) for _ in range(rnd.randrange(0, 6))]
    rec = {"id": rid, "kind": "hexdump", "data": list(data), "start": start, "palette": [[a, cols.index(b)] for a, b in palette]}
    try:
        colored = utils.hexdump(data, list(palette), offset=start, prefix=prefix, output="string")
        plain = utils.hexdump(data, None, offset=start, prefix=prefix, output="string")
        gen = "\n".join(utils.hexdump(data, list(palette), offset=start, prefix=prefix, output="generator"))
        cl, p1 = tokenize_lines(colored, prefix) if data else ([], True)
        pl, p2 = tokenize_lines(plain, prefix) if data else ([], True)
        if cl is None or pl is None or gen != colored:
            rec["obs"] = {"status": "unparseable", "colored": [], "plain": [], "prefix_ok": False, "text": colored[:300]}
        else:
            rec["obs"] = {"status": "ok", "colored": cl, "plain": pl, "prefix_ok": bool(p1 and p2)}
    except Exception as e:  # noqa: BLE001
        rec["obs"] = {"status": "error", "colored": [], "plain": [], "prefix_ok": False, "exc": f"{type(e).__name__}: {e}"[:150]}
    return rec


def dumpstruct_record(rid, rnd):
    from dissect.cstruct import utils

    scn = codec.gen_scenario(rnd, {"eof": False, "depth": 1}, top_union=0)
    t, mode = scn["type"], scn["mode"]
    rec = {"id": rid, "kind": "dumpstruct", "defs": scn["defs"], "data": [], "start": 0, "fields": []}
    try:
        cs = codec.load(scn["defs"], mode, rnd.random() < 0.5)
        T = getattr(cs, t["name"])
        while True:
            data = codec.gen_input(rnd, 0, maxlen=90)
            try:
                v = T(data)
                b = v.dumps()
                break
            except Exception:  # noqa: BLE001
                if rnd.random() < 0.05:
                    return None
        color = rnd.random() < 0.6
        start = rnd.choice([0, 32])
        form = rnd.random() < 0.5 or T.size is None      # the class + bytes form is claimed for len(data) = len(T) only
        rec["fields"] = [[ord(c) for c in f._name] for f in T.__fields__]
        rec["start"] = start
        rec["color"] = color
        if form:
            out = utils.dumpstruct(v, offset=start, color=color, output="string")
            rec["data"] = list(b)
        else:
            # the class + bytes form: the dump shows the bytes the structure was parsed from, whatever follows them (finding F66)
            used = data[: T.size]
            extra = bytes(rnd.randrange(256) for _ in range(rnd.choice([0, 0, 1, 5, 20])))
            out = utils.dumpstruct(T, used + extra, offset=start, color=color, output="string")
            rec["data"] = list((used + extra)[: T.size])      # (an input shorter than the padded size is completed by what follows)
        cut = out.index("\nstruct ")
        head, body = out[:cut].strip("\n"), out[cut + 1:]
        lines, _ = tokenize_lines(head, "") if rec["data"] else ([], True)
        names = []
        for ln in ANSI.sub("", body).split("\n"):
            m = re.match(r"- ([^:]+): ", ln)
            if m:
                names.append([ord(c) for c in m.group(1)])
        esc = out.count("\x1b")
        if lines is None:
            rec["obs"] = {"status": "unparseable", "lines": [], "fields": names, "text": out[:300], "escapes": esc}
        else:
            rec["obs"] = {"status": "ok", "lines": lines, "fields": names, "escapes": esc}
    except Exception as e:  # noqa: BLE001
        rec["obs"] = {"status": "error", "lines": [], "fields": [], "escapes": 0, "exc": f"{type(e).__name__}: {e}"[:150]}
    rec.setdefault("color", False)
    return rec


def int_records(rid, rnd):
    from dissect.cstruct import utils

    out = []
    bits = rnd.choice([8, 16, 24, 32, 64, 128, 12, 4, 20, 33])      # a width in bits stands for the whole bytes that hold it
    w = (bits + 7) // 8
    e = rnd.choice(ENDIANS)
    lo, hi = -(1 << (8 * w - 1)), (1 << (8 * w)) - 1
    v = rnd.choice([0, 1, -1, hi, lo, (1 << (8 * w - 1)) - 1, 1 << (8 * w - 1), rnd.randrange(lo, hi + 1), hi + 1, lo - 1])
    rec = {"id": rid, "kind": "pack", "v": A.pint(v), "bits": bits, "endian": e}
    try:
        helper = {8: utils.p8, 16: utils.p16, 32: utils.p32, 64: utils.p64}.get(bits) if rnd.random() < 0.5 else None
        b = helper(v, e) if helper else utils.pack(v, bits, e)
        uh = {8: utils.u8, 16: utils.u16, 32: utils.u32, 64: utils.u64}.get(bits) if rnd.random() < 0.5 else None
        back = uh(b, e, v < 0) if uh else utils.unpack(b, bits, e, v < 0)
        rec["obs"] = {"status": "ok", "b": list(b), "back": A.pint(back)}
    except Exception as ex:  # noqa: BLE001
        rec["obs"] = {"status": "error", "b": [], "back": A.pint(0), "exc": f"{type(ex).__name__}: {ex}"[:120]}
    out.append(rec)
    # no width at all: the fewest bytes that hold the value, also for negative ones
    k = rnd.choice([8, 16, 24, 32, 64])
    mv = rnd.choice([0, 1, -1, (1 << k) - 1, 1 << k, -(1 << (k - 1)), -(1 << (k - 1)) - 1, -(1 << k) + 1, -(1 << k), rnd.randrange(-(1 << k), 1 << k)])
    rec = {"id": rid + 3, "kind": "packmin", "v": A.pint(mv), "bits": 0, "endian": e}
    try:
        b = utils.pack(mv, endian=e) if rnd.random() < 0.5 else utils.pack(mv, None, e)
        rec["obs"] = {"status": "ok", "b": list(b), "back": A.pint(utils.unpack(b, endian=e, sign=mv < 0))}
    except Exception as ex:  # noqa: BLE001
        rec["obs"] = {"status": "error", "b": [], "back": A.pint(0), "exc": f"{type(ex).__name__}: {ex}"[:120]}
    out.append(rec)
    data = bytes(rnd.choice([0, 1, 0x7F, 0x80, 0xFF, rnd.randrange(256)]) for _ in range(w))
    sign = rnd.random() < 0.5
    rec = {"id": rid + 1, "kind": "unpack", "b": list(data), "bits": bits, "endian": e, "sign": sign}
    try:
        val = utils.unpack(data, bits, e, sign)
        rec["obs"] = {"status": "ok", "v": A.pint(val), "back": list(utils.pack(val, bits, e))}
    except Exception as ex:  # noqa: BLE001
        rec["obs"] = {"status": "error", "v": A.pint(0), "back": [], "exc": f"{type(ex).__name__}: {ex}"[:120]}
    out.append(rec)
    sb = rnd.choice([16, 32, 64, 24, 128, 12, 20])
    sbw = 8 * ((sb + 7) // 8)
    sv = rnd.choice([0, 1, (1 << sbw) - 1, 1 << (sbw - 1), rnd.randrange(0, 1 << sbw)])
    rec = {"id": rid + 2, "kind": "swap", "v": A.pint(sv), "bits": sb}
    try:
        fn = {16: utils.swap16, 32: utils.swap32, 64: utils.swap64}.get(sb) if rnd.random() < 0.5 else None
        once = fn(sv) if fn else utils.swap(sv, sb)
        twice = fn(once) if fn else utils.swap(once, sb)
        rec["obs"] = {"status": "ok", "once": A.pint(once), "twice": A.pint(twice)}
    except Exception as ex:  # noqa: BLE001
        rec["obs"] = {"status": "error", "once": A.pint(0), "twice": A.pint(0), "exc": f"{type(ex).__name__}: {ex}"[:120]}
    out.append(rec)
    return out


class UtilsCheck:
    prop = "C19"

    def run(self, rep):
        thorough = rep.tier == "thorough"
        rnd = random.Random(rep.seed)
        rep.rule = ("E1: the hex dump generator as a state machine for every data length 0..34 x 2 start offsets x all palettes of <= 3 "
                    "entries with lengths {0,1,15,16,17} (Lossless, offsets, no colour without palette) + pack/unpack/swap inverses over "
                    "widths 8..128 and all endian spellings; E2: real hexdump output (string and generator form) for random data, "
                    "offsets, prefixes and palettes is tokenised (offset, hex cells, text column, colour escapes) with and without "
                    "palette; dumpstruct of parsed random structures (instance form and class+bytes form, colour on/off); pack / "
                    "unpack / p8..p64 / u8..u64 / swap / swap16..64 on boundary and random integers incl. values that do not fit; "
                    "non-trivial = distinct record")
        run_mc(rep, "MC_Hexdump")
        recs = []
        for _ in range(8000 if thorough else 700):
            recs.append(hexdump_record(len(recs), rnd))
        for _ in range(3000 if thorough else 250):
            r = dumpstruct_record(len(recs), rnd)
            if r:
                recs.append(r)
        for _ in range(6000 if thorough else 600):
            recs += int_records(len(recs), rnd)
        for i, r in enumerate(recs):
            r["id"] = i
        rep.evaluations += len(recs)
        verdicts, _ = tlc.validate_batch("Trace_Utils", recs)
        rep.traces += len(verdicts)
        for r in recs:
            v = verdicts[r["id"]]
            rep.nontrivial_case({k: r[k] for k in r if k not in ("id", "obs")})
            rep.sample({k: (r[k] if k != "obs" else {kk: vv for kk, vv in r["obs"].items() if kk in ("status", "b", "fields")}) for k in r if k != "data"}, limit=4)
            if not v:
                continue
            if r["kind"] == "dumpstruct" and r["obs"]["status"] == "error" and r.get("color") and ":" in r["defs"].split("{", 1)[-1] \
                    and "KeyError" in r["obs"].get("exc", ""):
                rep.known_hit("F14", r["defs"][:160])
                continue
            rep.violation(f"{r['kind']} record: clauses {v}; {({k: r[k] for k in r if k in ('bits', 'endian', 'v', 'b', 'sign', 'start', 'palette', 'defs', 'color')})} obs={str(r['obs'])[:400]}",
                          {"kind": "utils", "record": r, "clauses": v})

    def replay(self, path):
        print("replay: re-run ./check C19 with the seed in the file name")
        return 0
