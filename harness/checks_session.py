"""C14 / C17: histories over cstruct objects and structure instances, judged by Trace_Session (frame conditions after
every event) + MC_Session on the specification."""
from __future__ import annotations

import io
import random

from harness import absyn as A
from harness import codec
from harness.checks_codec import run_mc
from harness.checks_scalar import validate_histories
from harness.framework import MachineryError

CFG = {"union": False, "eof": False, "void": False, "depth": 1, "max_fields": 4}


def observed(fn):
    """(value, raised): an observed call that raises is an observation (judged as a wrong answer), never a harness failure."""
    try:
        return bool(fn()), False
    except Exception:  # noqa: BLE001
        return False, True


def pick_path(rnd, t, v):
    """A random assignable location inside abstract value v of type t: (path, node type, is_bits)."""
    path = []
    typ, val, bits = t, v, 0
    while True:
        k = typ["k"]
        if k in ("struct", "arr") and not (isinstance(val, dict) and ("vals" if k == "struct" else "items") in val):
            # the object does not have the shape of its type (a changed library can do that): nothing to pick below this point -
            # the frame condition reports the value itself
            return path, typ, 0
        if k == "struct":
            i = rnd.randrange(len(typ["fields"]))
            f = typ["fields"][i]
            path.append({"k": "f", "i": i + 1})
            typ, val, bits = f["type"], val["vals"][i], f["bits"]
            if bits or rnd.random() < 0.35:
                return path, typ, bits
        elif k == "arr" and typ["elem"]["k"] not in ("char", "wchar") and val["items"] and rnd.random() < 0.7:
            j = rnd.randrange(len(val["items"]))
            path.append({"k": "e", "i": j + 1})
            typ, val = typ["elem"], val["items"][j]
            if rnd.random() < 0.4:
                return path, typ, 0
        else:
            return path, typ, 0


def navigate(obj, T, path):
    """Follow all but the last path element on the real object; returns (container, real class of the last node's parent)."""
    cls = T
    for p in path[:-1]:
        if p["k"] == "f":
            rf = cls.__fields__[p["i"] - 1]
            obj, cls = getattr(obj, rf._name), rf.type
        else:
            obj, cls = obj[p["i"] - 1], cls.type
    return obj, cls


def real_set(obj, T, path, t, value, node_type, bits):
    cont, cls = navigate(obj, T, path)
    last = path[-1]
    if last["k"] == "f":
        rf = cls.__fields__[last["i"] - 1]
        real = A.unpint(value) if (bits and node_type["k"] != "enum") else A.unproject(value, node_type, rf.type)
        setattr(cont, rf._name, real)
    else:
        cont[last["i"] - 1] = A.unproject(value, node_type, cls.type)


def session_history(rnd, first_id, nev, focus=False):
    """focus: a history about construction - one class on one object, many partial positional / keyword constructions,
    in-place changes below the top level (what an instance shares with its class or its siblings shows there)."""
    from dissect.cstruct import cstruct

    modes = [codec.gen_mode(rnd), codec.gen_mode(rnd)]
    modes[1]["endian"] = "<" if modes[0]["endian"] == ">" else ">"
    modes[1]["ptr"], modes[1]["align"] = modes[0]["ptr"], modes[0]["align"]
    g = A.Gen(rnd, modes[0], CFG)
    types = []
    for _ in range(2):
        while True:
            t = g.struct()
            if not A.has_dup_names(t):
                break
        types.append(t)
    if rnd.random() < 0.5:          # a second class with the same number of fields but other names (template cache)
        twin = dict(types[0], name=types[0]["name"] + "tw",
                    fields=[dict(f, name=f["name"] + "x") for f in types[0]["fields"]])
        # a length that names one of the renamed fields (or a field that shadowed a constant) would mean something else in the twin
        names = {f["name"] for f in types[0]["fields"]}

        def names_fields(t):
            if t["k"] == "arr":
                ln = t["len"]
                return ("e" in ln and bool(A.expr_refs(ln["e"], names))) or names_fields(t["elem"])
            return False

        if not any(names_fields(f["type"]) for f in types[0]["fields"]) and not (names & set(g.consts)):
            types.append(twin)
    r = A.Renderer()
    for t in types:
        r.ensure(t)
    defs = r.text(g.consts)
    if "x[" in defs or any(rf in defs for rf in ()):
        pass
    compiled = rnd.random() < 0.5
    try:
        css = [codec.load(defs, modes[0], compiled), codec.load(defs, modes[1], compiled), codec.load(defs, modes[0], compiled)]
    except Exception:  # noqa: BLE001 - renamed twin fields can break length expressions: not a scenario
        return [], first_id
    consts = g.consts or {"_": 0}
    live = {}        # iid -> (real obj, cs index, type)
    events, rid, next_iid = [], first_id, 1

    def snap():
        return [[iid, A.project(o, t)] for iid, (o, c, t) in sorted(live.items())]

    def emit(ev):
        nonlocal rid
        ev["id"] = rid
        ev["snap"] = snap()
        events.append(ev)
        rid += 1

    if focus:
        types = types[:1]
    for _ in range(nev):
        r_ = rnd.random()
        c = 0 if focus else rnd.randrange(2)
        t = rnd.choice(types)
        if focus:
            r_ = rnd.choice([0.1, 0.1, 0.5, 0.5, 0.5, r_])
        T = getattr(css[c], t["name"])
        base = {"cs": c + 1, "type": t, "mode": modes[c], "consts": consts}
        if r_ < 0.22 or not live:
            # Construct
            args, kwargs = [], []
            style = rnd.random()
            try:
                zero_like = A.gen_value(rnd, t, modes[c], g.consts)
            except Exception:  # noqa: BLE001
                continue
            if focus:
                style = rnd.choice([0.2, 0.6, 0.6, 0.9])
            if style < 0.5:
                pass
            elif style < 0.75:
                npos = rnd.randrange(1, len(t["fields"]) + 1)
                args = zero_like["vals"][:npos]
                if npos == 1 and args[0].get("k") in ("bytes", "str"):
                    continue     # T(b"...") means "parse these bytes": a single bytes argument is not a positional value
                if npos > 1 and rnd.random() < (0.6 if focus else 0.3):
                    # None in a positional slot = "unspecified" (finding F55: such a slot shared the class-wide default object)
                    args = [codec.NONE_V if (i < npos - 1 and rnd.random() < 0.5) else a for i, a in enumerate(args)]
            else:
                for i in rnd.sample(range(len(t["fields"])), rnd.randrange(1, len(t["fields"]) + 1)):
                    kwargs.append([i + 1, codec.NONE_V if rnd.random() < 0.15 else zero_like["vals"][i]])
            if A.has_nan(args) or A.has_nan(kwargs):
                continue
            try:
                real_args = [None if a == codec.NONE_V else
                             A.unpint(a) if (f["bits"] and f["type"]["k"] != "enum") else A.unproject(a, f["type"], rf.type)
                             for a, f, rf in zip(args, t["fields"], T.__fields__)]
                real_kw = {T.__fields__[i - 1]._name: (None if v == codec.NONE_V else A.unpint(v) if (t["fields"][i - 1]["bits"] and t["fields"][i - 1]["type"]["k"] != "enum")
                                                       else A.unproject(v, t["fields"][i - 1]["type"], T.__fields__[i - 1].type)) for i, v in kwargs}
                o = T(*real_args, **real_kw)
                iid = next_iid
                next_iid += 1
                live[iid] = (o, c, t)
                emit(dict(base, ev="Construct", iid=iid, args=args, kwargs=kwargs, obs={"status": "ok", "v": A.project(o, t)}))
            except Exception as e:  # noqa: BLE001
                emit(dict(base, ev="Construct", iid=0, args=args, kwargs=kwargs, obs={"status": "error", "v": codec.NONE_V, "exc": f"{type(e).__name__}: {e}"[:150]}))
        elif r_ < 0.4:
            data = codec.gen_input(rnd, 0, maxlen=80)
            if rnd.random() < 0.25:
                data = data[: rnd.randrange(0, 4)]
            try:
                o = T.read(io.BytesIO(data))
                p = A.project(o, t)
                if A.has_nan(p):
                    continue
                iid = next_iid
                next_iid += 1
                live[iid] = (o, c, t)
                emit(dict(base, ev="Parse", iid=iid, input=list(data), obs={"status": "ok", "v": p}))
            except Exception as e:  # noqa: BLE001
                emit(dict(base, ev="Parse", iid=0, input=list(data), obs={"status": codec.classify(e), "v": codec.NONE_V}))
        elif r_ < 0.62:
            iid = rnd.choice(list(live))
            o, c2, t2 = live[iid]
            T2 = getattr(css[c2], t2["name"])
            cur = A.project(o, t2)
            path, node, bits = pick_path(rnd, t2, cur)
            for _retry in range(6 if focus else 0):
                if len(path) >= 2:
                    break
                path, node, bits = pick_path(rnd, t2, cur)
            if not path:
                continue
            try:
                if bits:
                    v = A.pint(rnd.choice([0, 1, (1 << bits) - 1]))
                    if node["k"] == "enum":
                        v = {"k": "enum", "cls": node["name"], "v": v}
                else:
                    v = A.gen_value(rnd, node, modes[c2], g.consts)
            except Exception:  # noqa: BLE001
                continue
            if A.has_nan(v):
                continue
            try:
                real_set(o, T2, path, t2, v, node, bits)
                st = {"status": "ok"}
            except Exception as e:  # noqa: BLE001
                st = {"status": "error", "exc": f"{type(e).__name__}: {e}"[:150]}
            emit({"cs": c2 + 1, "type": t2, "mode": modes[c2], "consts": consts, "ev": "SetField", "iid": iid, "path": path, "value": v, "obs": st})
        elif r_ < 0.66 and any(f["type"]["k"] == "arr" and f["type"]["len"]["k"] != "fixed" and f["type"]["elem"]["k"] not in ("char", "wchar")
                               and not f["bits"] for (_, _, tt) in live.values() for f in tt["fields"]):
            # an array without a fixed number of entries grows in place (its default is an EMPTY list - an object all the same)
            cands = [(iid, j) for iid, (_, _, tt) in live.items() for j, f in enumerate(tt["fields"])
                     if f["type"]["k"] == "arr" and f["type"]["len"]["k"] != "fixed" and f["type"]["elem"]["k"] not in ("char", "wchar") and not f["bits"]]
            iid, j = rnd.choice(cands)
            o, c2, t2 = live[iid]
            f = t2["fields"][j]
            try:
                v = A.gen_value(rnd, f["type"]["elem"], modes[c2], g.consts, nonzero=f["type"]["len"]["k"] == "null")
            except Exception:  # noqa: BLE001
                continue
            if A.has_nan(v):
                continue
            rf = getattr(css[c2], t2["name"]).__fields__[j]
            getattr(o, rf._name).append(A.unproject(v, f["type"]["elem"], rf.type.type))
            emit({"cs": c2 + 1, "type": t2, "mode": modes[c2], "consts": consts, "ev": "Append", "iid": iid, "j": j + 1, "value": v, "obs": {}})
        elif r_ < 0.74:
            iid = rnd.choice(list(live))
            o, c2, t2 = live[iid]
            try:
                ob = {"status": "ok", "b": list(o.dumps())}
            except Exception as e:  # noqa: BLE001
                ob = {"status": "error", "b": [], "exc": f"{type(e).__name__}: {e}"[:150]}
            emit({"cs": c2 + 1, "type": t2, "mode": modes[c2], "consts": consts, "ev": "Dump", "iid": iid, "obs": ob})
        elif r_ < 0.86 and len(live) >= 1:
            i, j = rnd.choice(list(live)), rnd.choice(list(live))
            a, b = live[i][0], live[j][0]
            eq, eq_raised = observed(lambda: a == b)
            try:
                heq, hashable = hash(a) == hash(b), True
            except TypeError:
                heq, hashable = False, False
            emit({"cs": 1, "type": live[i][2], "mode": modes[0], "consts": consts, "ev": "Eq", "iid": i, "jid": j,
                  "obs": {"eq": eq, "heq": heq, "hashable": hashable}})
        elif r_ < 0.93:
            iid = rnd.choice(list(live))
            emit({"cs": 1, "type": live[iid][2], "mode": modes[0], "consts": consts, "ev": "Bool", "iid": iid,
                  "obs": dict(zip(("result", "raised"), observed(lambda: bool(live[iid][0]))))})
        else:
            # operations on ANOTHER cstruct object: must not affect anything above
            other = css[2]
            kind = rnd.choice(["Load", "SetEndian", "AddType"])
            try:
                if kind == "Load":
                    other.load(f"struct extra{rid} {{ uint8 q; uint16 r[2]; }};")
                elif kind == "SetEndian":
                    other.endian = rnd.choice("<>")
                else:
                    other.add_type(f"alias{rid}", "uint32")
            except Exception:  # noqa: BLE001
                pass
            emit({"cs": 3, "type": types[0], "mode": modes[0], "consts": consts, "ev": kind, "obs": {}})
    return events, rid


def cross_object_history(rnd, first_id):
    """Two cstruct objects load the SAME definition text under different constants, byte orders and pointer widths, in a random
    order, and are then used alternately: each object's types must mean what its own constants say."""
    from dissect.cstruct import cstruct

    objs = []
    for i in range(2):
        mode = {"endian": rnd.choice("<>"), "align": rnd.random() < 0.5, "ptr": rnd.choice([2, 4, 8])}
        consts = {"N": rnd.randrange(0, 4), "B": rnd.randrange(1, 4)}
        objs.append((mode, consts))
    text_struct = "struct P { uint8 tag; uint16 w[N * 2]; uint8 *p; char c[M]; uint32 x; };"
    events, rid = [], first_id
    css, types = [None, None], [None, None]
    order = [0, 1] if rnd.random() < 0.5 else [1, 0]
    for i in order:
        mode, consts = objs[i]
        m = consts["N"] + consts["B"]
        defs = f"#define N {consts['N']}\n#define B {consts['B']}\n#define M N + B\n" + text_struct
        css[i] = codec.load(defs, mode, rnd.random() < 0.5)
        types[i] = A.t_struct("P", [A.field("tag", A.t_int("uint8")), A.field("w", A.t_arr(A.t_int("uint16"), A.L_fixed(consts["N"] * 2))),
                                    A.field("p", A.t_ptr(A.t_int("uint8"))), A.field("c", A.t_arr(A.t_char(), A.L_fixed(m))),
                                    A.field("x", A.t_int("uint32"))])
    live = {}
    next_iid = 1
    for _ in range(8):
        i = rnd.randrange(2)
        mode, consts = objs[i]
        t, T = types[i], css[i].P
        base = {"cs": i + 1, "type": t, "mode": mode, "consts": {"_": 0}}
        if rnd.random() < 0.6:
            data = codec.gen_input(rnd, 0, maxlen=60)
            try:
                o = T.read(io.BytesIO(data))
                live[next_iid] = (o, t)
                ev = dict(base, ev="Parse", iid=next_iid, input=list(data), obs={"status": "ok", "v": A.project(o, t)})
                next_iid += 1
            except Exception as e:  # noqa: BLE001
                ev = dict(base, ev="Parse", iid=0, input=list(data), obs={"status": codec.classify(e), "v": codec.NONE_V})
        else:
            try:
                o = T()
                live[next_iid] = (o, t)
                ev = dict(base, ev="Construct", iid=next_iid, args=[], kwargs=[], obs={"status": "ok", "v": A.project(o, t)})
                next_iid += 1
            except Exception as e:  # noqa: BLE001
                ev = dict(base, ev="Construct", iid=0, args=[], kwargs=[], obs={"status": "error", "v": codec.NONE_V, "exc": str(e)[:100]})
        ev["id"] = rid
        ev["snap"] = [[iid, A.project(o, tt)] for iid, (o, tt) in sorted(live.items())]
        events.append(ev)
        rid += 1
    return events, rid


def residue_history(rnd, first_id):
    """Parses that FAIL half-way through evaluating a length expression (division by zero, negative shift count, undecodable
    operand), each followed by parses of good bytes with the same types: nothing of the failed call may be left behind."""
    u8 = A.t_int("uint8")
    shapes = [
        # (length expression, the three leading fields it names)
        A.e_bin("+", A.e_id("a"), A.e_bin("/", A.e_id("b"), A.e_id("c"))),
        A.e_bin("+", A.e_lit(1), A.e_bin("<<", A.e_lit(1), A.e_bin("-", A.e_id("c"), A.e_lit(2)))),
        A.e_bin("*", A.e_bin("+", A.e_id("a"), A.e_lit(1)), A.e_bin("%", A.e_id("b"), A.e_id("c"))),
        A.e_bin("|", A.e_id("a"), A.e_bin(">>", A.e_id("b"), A.e_bin("-", A.e_id("c"), A.e_lit(1)))),
    ]
    e = rnd.choice(shapes)
    elem = rnd.choice([u8, A.t_int("uint16"), A.t_char()])
    t = A.t_struct("RS", [A.field("a", u8), A.field("b", u8), A.field("c", u8), A.field("d", A.t_arr(elem, A.L_expr(e))), A.field("t", u8)])
    mode = {"endian": rnd.choice("<>"), "align": rnd.random() < 0.3, "ptr": 8}
    cs = codec.load(A.render(t), mode, rnd.random() < 0.5)
    T = cs.RS
    events, rid = [], first_id
    live, next_iid = {}, 1
    for _ in range(8):
        a, b = rnd.randrange(0, 3), rnd.randrange(0, 6)
        c = rnd.choice([0, 0, 1, 2, 3]) if rnd.random() < 0.6 else rnd.randrange(1, 4)
        data = bytes([a, b, c]) + bytes(rnd.randrange(1, 256) for _ in range(24))
        base = {"cs": 1, "type": t, "mode": mode, "consts": {"_": 0}}
        try:
            o = T.read(io.BytesIO(data))
            live[next_iid] = (o, t)
            ev = dict(base, ev="Parse", iid=next_iid, input=list(data), obs={"status": "ok", "v": A.project(o, t)})
            next_iid += 1
        except Exception as ex:  # noqa: BLE001
            ev = dict(base, ev="Parse", iid=0, input=list(data), obs={"status": codec.classify(ex), "v": codec.NONE_V, "exc": f"{type(ex).__name__}: {ex}"[:100]})
        ev["id"] = rid
        ev["snap"] = [[iid, A.project(o, tt)] for iid, (o, tt) in sorted(live.items())]
        events.append(ev)
        rid += 1
    return events, rid


def union_eq_history(rnd, first_id):
    """Unions with structure members, and structures holding them: construction (default, one value - positional behind Nones or
    keyword), parsing, dumping, truthiness, equality and hash, with the members declared in a random order (the largest is
    not always the first).  Assignments through unions are C11's."""
    u8 = A.t_int("uint8")
    p = A.t_struct("up", [A.field("x", u8), A.field("y", u8)])
    members = [A.field("s", p), A.field("w", A.t_int("uint16")), A.field("b", u8)]
    if rnd.random() < 0.6:
        members.append(A.field("q", A.t_int("uint32")))
    rnd.shuffle(members)
    inner = A.t_struct("uu", members, union=True)
    outer = A.t_struct("uw", [A.field("t", u8), A.field("u", inner), A.field("arr", A.t_arr(inner, A.L_fixed(2)))])
    t = rnd.choice([inner, inner, outer])
    mode = {"endian": rnd.choice("<>"), "align": False, "ptr": 8}
    r = A.Renderer()
    r.ensure(outer)
    cs = codec.load(r.text({}), mode, rnd.random() < 0.5)
    T = getattr(cs, t["name"])
    usize = 4 if len(members) == 4 else 2
    size = usize if t is inner else 1 + 3 * usize
    pool = [bytes(rnd.choice([0, 1, 2]) for _ in range(size)) for _ in range(2)] + [bytes(size)]
    events, rid, live, next_iid = [], first_id, {}, 1
    for _ in range(9):
        base = {"cs": 1, "type": t, "mode": mode, "consts": {"_": 0}}
        r_ = rnd.random()
        if len(live) < 2 or r_ < 0.35:
            if rnd.random() < 0.5:
                data = rnd.choice(pool)
                o = T.read(io.BytesIO(data))
                live[next_iid] = (o, t)
                ev = dict(base, ev="Parse", iid=next_iid, input=list(data), obs={"status": "ok", "v": A.project(o, t)})
            else:
                args, kwargs = [], []
                if t is inner and rnd.random() < 0.7:
                    i = rnd.randrange(len(members))
                    small = lambda: A.pint(rnd.choice([0, 0, 1, 2]))      # noqa: E731 - small values: equal pairs must be frequent
                    if members[i]["type"]["k"] == "struct":
                        v = {"k": "struct", "cls": "up", "names": ["x", "y"], "vals": [small(), small()]}
                    else:
                        v = small()
                    if rnd.random() < 0.5:
                        args = [codec.NONE_V] * i + [v]
                    else:
                        kwargs = [[i + 1, v]]
                        if i > 0 and rnd.random() < 0.3:
                            kwargs.insert(0, [1, codec.NONE_V])
                # real members by NAME: the order of __fields__ is itself something a change may break
                real_args = [None if a == codec.NONE_V else A.unproject(a, f["type"], T.fields[f["name"]].type) for a, f in zip(args, t["fields"])]
                real_kw = {t["fields"][i - 1]["name"]: (None if v == codec.NONE_V else A.unproject(v, t["fields"][i - 1]["type"], T.fields[t["fields"][i - 1]["name"]].type))
                           for i, v in kwargs}
                try:
                    o = T(*real_args, **real_kw)
                    live[next_iid] = (o, t)
                    ev = dict(base, ev="Construct", iid=next_iid, args=args, kwargs=kwargs, obs={"status": "ok", "v": A.project(o, t)})
                except Exception as e:  # noqa: BLE001
                    ev = dict(base, ev="Construct", iid=0, args=args, kwargs=kwargs, obs={"status": "error", "v": codec.NONE_V, "exc": f"{type(e).__name__}: {e}"[:150]})
            if ev["obs"]["status"] == "ok":
                next_iid += 1
        elif r_ < 0.44 and t is inner:
            # a free-standing instance of the member's structure type, compared with the member from both sides
            vals = [A.pint(rnd.choice([0, 0, 1, 2])), A.pint(rnd.choice([0, 0, 1, 2]))]
            P = cs.up
            so = P(x=A.unpint(vals[0]), y=A.unpint(vals[1]))
            live[next_iid] = (so, p)
            ev = dict(base, type=p, ev="Construct", iid=next_iid, args=[], kwargs=[[1, vals[0]], [2, vals[1]]], obs={"status": "ok", "v": A.project(so, p)})
            next_iid += 1
            ev["id"] = rid
            ev["snap"] = [[iid, A.project(o, tt)] for iid, (o, tt) in sorted(live.items())]
            events.append(ev)
            rid += 1
            unions = [i for i, (o, tt) in live.items() if tt is inner]
            if not unions:
                continue
            i = rnd.choice(unions)
            j = next(k for k, f in enumerate(members) if f["name"] == "s")
            member = getattr(live[i][0], "s")
            try:
                heq, hashable = hash(member) == hash(so), True
            except TypeError:
                heq, hashable = False, False
            ev = dict(base, ev="EqPart", iid=i, j=j + 1, jid=next_iid - 1, obs={"lr": observed(lambda: member == so)[0], "rl": observed(lambda: so == member)[0], "heq": heq, "hashable": hashable})
        elif r_ < 0.5:
            i = rnd.choice(list(live))
            try:
                ob = {"status": "ok", "b": list(live[i][0].dumps())}
            except Exception as e:  # noqa: BLE001
                ob = {"status": "error", "b": [], "exc": f"{type(e).__name__}: {e}"[:150]}
            ev = dict(base, ev="Dump", iid=i, obs=ob)
        elif r_ < 0.62:
            i = rnd.choice(list(live))
            ev = dict(base, ev="Bool", iid=i, obs=dict(zip(("result", "raised"), observed(lambda: bool(live[i][0])))))
        else:
            i, j = rnd.choice(list(live)), rnd.choice(list(live))
            a, b = live[i][0], live[j][0]
            try:
                heq, hashable = hash(a) == hash(b), True
            except TypeError:
                heq, hashable = False, False
            ev = dict(base, ev="Eq", iid=i, jid=j, obs={"eq": observed(lambda: a == b)[0], "heq": heq, "hashable": hashable})
        ev["id"] = rid
        ev["snap"] = [[iid, A.project(o, tt)] for iid, (o, tt) in sorted(live.items())]
        events.append(ev)
        rid += 1
    return events, rid


class SessionCheck:
    def __init__(self, prop):
        self.prop = prop

    def run(self, rep):
        thorough = rep.tier == "thorough"
        rnd = random.Random(rep.seed)
        owned = {"C14": {"frame", "construct", "parse-pure", "dump", "setfield"}, "C17": {"eq", "eq-symmetry", "hash", "bool", "construct", "dump", "frame"}}[self.prop]
        rep.rule = ("histories of 14 (thorough: 30) events over three cstruct objects (two byte orders) sharing the same random definitions "
                    "(two structures + a twin with the same field count and other names), up to ~8 live instances: Construct (default / "
                    "positional / keyword), Parse, failed Parse, SetField at random paths (nested fields, array elements, bit-fields), "
                    "Dump, Eq+hash, bool, and Load / SetEndian / AddType on another object; after EVERY event all live instances are "
                    "projected and compared with the specification state; non-trivial = an event with >= 2 live instances")
        run_mc(rep, "MC_Session", A.universe(1, kinds=["u8", "i16", "u8x2", "nest", "bits8", "nestarr", "c2", "enum", "u16x2x2"],
                                             modes=[{"endian": "<", "align": a, "ptr": 8} for a in (False, True)], with_len_field=False))
        events, rid = [], 0
        for _ in range(2500 if thorough else 260):
            evs, rid = session_history(rnd, rid, 30 if thorough else 14, focus=rnd.random() < 0.3)
            events.append({"ev": "New", "endian": "<"})
            events += evs
        for _ in range(1500 if thorough else 120):
            evs, rid = cross_object_history(rnd, rid)
            events.append({"ev": "New", "endian": "<"})
            events += evs
        for _ in range(600 if thorough else 60):
            evs, rid = union_eq_history(rnd, rid)
            events.append({"ev": "New", "endian": "<"})
            events += evs
        for _ in range(1200 if thorough else 100):
            evs, rid = residue_history(rnd, rid)
            events.append({"ev": "New", "endian": "<"})
            events += evs
        # the other direction: TLC chooses the histories (Gen_Session), the real objects follow
        replay_tlc_sessions(rep, rnd, 100 if thorough else 24, 600 if thorough else 60, 10 if thorough else 6)
        judged = [e for e in events if "id" in e]
        rep.evaluations += len(judged)
        verdicts, _ = validate_histories("Trace_Session", events)
        rep.traces += len(verdicts)
        self.corruption_selftest(rep, events, verdicts)
        for e in judged:
            v = verdicts.get(e["id"])
            if v is None:
                raise MachineryError(f"no verdict for session event {e['id']}")
            failed = [c for c in v if c in owned]
            if len(e["snap"]) >= 2:
                rep.nontrivial_case([e["ev"], A.render(e["type"]), e.get("path"), e.get("value"), e.get("args"), e.get("kwargs"), e.get("input"), len(e["snap"])])
            rep.sample({"ev": e["ev"], "defs": A.render(e["type"])[:200], "path": e.get("path"), "obs": str(e["obs"])[:200], "live": len(e["snap"])}, limit=4)
            if not failed:
                continue
            if "KF:F16" in v and failed == ["dump"]:
                rep.known_hit("F16", A.render(e["type"])[:160])
                continue
            rep.violation(f"session event {e['ev']} iid={e.get('iid')} path={e.get('path')} value={str(e.get('value'))[:120]}: clauses {v} :: "
                          f"{A.render(e['type'])[:300]} mode={e['mode']} obs={str(e['obs'])[:300]}", {"kind": "session-event", "event": e, "clauses": v})

    @staticmethod
    def corruption_selftest(rep, events, verdicts):
        """Vacuity guard of Trace_Session: accepted histories are judged again with ONE integer leaf of the logged state changed in
        their last event; that event must then be rejected (clause frame)."""
        import copy

        def first_int(v):
            if isinstance(v, dict):
                if v.get("k") == "int" and "mag" in v:
                    return v
                return next((r for r in map(first_int, v.values()) if r is not None), None)
            if isinstance(v, list):
                return next((r for r in map(first_int, v) if r is not None), None)
            return None

        hist, cur = [], []
        for e in events:
            if e["ev"] == "New":
                if cur:
                    hist.append(cur)
                cur = []
            else:
                cur.append(e)
        if cur:
            hist.append(cur)
        out, targets = [], []
        for h in hist:
            if len(targets) >= 6:
                break
            if any(verdicts.get(e["id"]) for e in h) or first_int(h[-1].get("snap")) is None:
                continue
            h2 = copy.deepcopy(h)
            leaf = first_int(h2[-1]["snap"])
            leaf["mag"] = [1] if not leaf["mag"] else [leaf["mag"][0] ^ 1 or 2] + leaf["mag"][1:]
            out.append({"ev": "New", "endian": "<"})
            out += h2
            targets.append(h2[-1]["id"])
        if not targets:
            return
        v2, _ = validate_histories("Trace_Session", out)
        silent = [t for t in targets if "frame" not in (v2.get(t) or [])]
        if silent:
            raise MachineryError(f"corruption self-test: {len(silent)} of {len(targets)} histories with a changed logged state were ACCEPTED by Trace_Session")
        rep.extra["corruption_selftest"] = f"{len(targets)} accepted histories re-judged with one integer of the logged state changed: all rejected (frame)"

    def replay(self, path):
        print("replay: re-run ./check", self.prop, "with the seed in the file name")
        return 0


# ------------------------------------------------------------------------------------------ E3: TLC behaviours replayed on the code
def gen_session_cases(rnd, k):
    """Universe for Gen_Session: one random structure per case with candidate constructor argument lists and candidate assignments;
    TLC chooses which of them happen, on which instance and in which order."""
    cases = []
    tries = 0
    while len(cases) < k and tries < 50 * k:
        tries += 1
        mode = codec.gen_mode(rnd)
        g = A.Gen(rnd, mode, CFG)
        t = g.struct()
        if A.has_dup_names(t):
            continue
        try:
            samples = [A.gen_value(rnd, t, mode, g.consts) for _ in range(4)]
        except Exception:  # noqa: BLE001
            continue
        if any(A.has_nan(s) for s in samples):
            continue
        nf = len(t["fields"])
        ctors = [{"args": [], "kwargs": []}]
        for s in samples[:2]:
            npos = rnd.randrange(1, nf + 1)
            args = s["vals"][:npos]
            if npos == 1 and args[0].get("k") in ("bytes", "str"):
                continue
            if npos > 1 and rnd.random() < 0.7:
                # None where the default is a mutable object (array, nested structure) is the interesting slot
                args = [codec.NONE_V if (i < npos - 1 and rnd.random() < (0.8 if a.get("k") in ("list", "struct") else 0.3)) else a
                        for i, a in enumerate(args)]
            ctors.append({"args": args, "kwargs": []})
        for s in samples[2:]:
            idx = rnd.sample(range(nf), rnd.randrange(1, nf + 1))
            ctors.append({"args": [], "kwargs": [[i + 1, codec.NONE_V if rnd.random() < 0.15 else s["vals"][i]] for i in idx]})
        assigns = []
        for _ in range(40):
            if len(assigns) >= 8:
                break
            cur = rnd.choice(samples)
            path, node, bits = pick_path(rnd, t, cur)
            for _retry in range(6 if len(assigns) % 2 == 0 else 0):      # every other candidate changes something below the top level
                if len(path) >= 2:
                    break
                path, node, bits = pick_path(rnd, t, cur)
            if not path:
                continue
            try:
                if bits:
                    v = A.pint(rnd.choice([0, 1, (1 << bits) - 1]))
                    if node["k"] == "enum":
                        v = {"k": "enum", "cls": node["name"], "v": v}
                else:
                    v = A.gen_value(rnd, node, mode, g.consts)
            except Exception:  # noqa: BLE001
                continue
            if A.has_nan(v):
                continue
            assigns.append({"path": path, "value": v, "node": node, "bits": bits})
        if not assigns:
            continue
        grows = []
        for j, f in enumerate(t["fields"]):
            if f["type"]["k"] == "arr" and f["type"]["len"]["k"] != "fixed" and f["type"]["elem"]["k"] not in ("char", "wchar") and not f["bits"]:
                for _ in range(2):
                    try:
                        v = A.gen_value(rnd, f["type"]["elem"], mode, g.consts, nonzero=f["type"]["len"]["k"] == "null")
                    except Exception:  # noqa: BLE001
                        continue
                    if not A.has_nan(v):
                        grows.append({"j": j + 1, "value": v})
        cases.append({"type": t, "mode": mode, "consts": g.consts or {"_": 0}, "ctors": ctors, "assigns": assigns, "grows": grows,
                      "defs": _defs(t, g.consts)})
    return cases


def _defs(t, consts):
    r = A.Renderer()
    r.ensure(t)
    return r.text(consts)


def replay_tlc_sessions(rep, rnd, ncases, num, depth):
    """Let TLC choose histories (Gen_Session, -simulate) and perform them on real objects, comparing every live instance's value,
    dumped bytes, truthiness and pairwise equality with the specification after every step."""
    import json
    import os

    from harness import tlc
    from harness.checks_codec import write_universe

    cases = gen_session_cases(rnd, ncases)
    path = write_universe(cases)
    cfg = os.path.join(tlc.VERIF, "gen", f"Gen_Session_{depth}.cfg")
    try:
        res = tlc.run(tlc.VERIF + "/gen/Gen_Session.tla", cfg, env={"UNIVERSE_FILE": path}, workers=1,
                      extra=["-simulate", f"num={num}", "-depth", str(depth + 2), "-seed", str(rnd.randrange(1 << 30))], timeout=1800)
    finally:
        os.unlink(path)
    if res.violated:
        raise MachineryError(f"Gen_Session: the specification violates its own frame condition: {res.violated}")
    behaviours = []
    for line in res.out.splitlines():
        if line.startswith('"{') and '\\"beh\\":\\"BEH\\"' in line:
            behaviours.append(json.loads(json.loads(line)))
    if not behaviours:
        raise MachineryError(f"Gen_Session produced no behaviours: {res.error or res.out[-800:]}")
    nsteps = 0
    acts = {"construct": 0, "assign": 0, "grow": 0}
    for beh in behaviours:
        c = cases[beh["case"] - 1]
        t, mode = c["type"], c["mode"]
        cs = codec.load(c["defs"], mode, False)
        T = getattr(cs, t["name"])
        live = []

        def bad(step, what):
            rep.violation(f"TLC-chosen history, step {step}: {what} :: {c['defs'][:300]} mode={mode}",
                          {"kind": "session-replay", "case": c, "behaviour": beh, "step": step})

        for k, st in enumerate(beh["log"], 1):
            try:
                if st["act"] == "construct":
                    ct = c["ctors"][st["c"] - 1]
                    real_args = [None if a == codec.NONE_V else
                                 A.unpint(a) if (f["bits"] and f["type"]["k"] != "enum") else A.unproject(a, f["type"], rf.type)
                                 for a, f, rf in zip(ct["args"], t["fields"], T.__fields__)]
                    real_kw = {}
                    for i, v in ct["kwargs"]:
                        f, rf = t["fields"][i - 1], T.__fields__[i - 1]
                        real_kw[rf._name] = None if v == codec.NONE_V else A.unpint(v) if (f["bits"] and f["type"]["k"] != "enum") \
                            else A.unproject(v, f["type"], rf.type)
                    live.append(T(*real_args, **real_kw))
                elif st["act"] == "grow":
                    gr = c["grows"][st["c"] - 1]
                    f, rf = t["fields"][gr["j"] - 1], T.__fields__[gr["j"] - 1]
                    getattr(live[st["i"] - 1], rf._name).append(A.unproject(gr["value"], f["type"]["elem"], rf.type.type))
                else:
                    asg = c["assigns"][st["c"] - 1]
                    real_set(live[st["i"] - 1], T, asg["path"], t, asg["value"], asg["node"], asg["bits"])
            except Exception as e:  # noqa: BLE001
                bad(k, f"{st['act']} #{st['c']} on instance {st['i']} raised {type(e).__name__}: {e}")
                break
            acts[st["act"]] += 1
            nsteps += 1
            obs = st["obs"]
            got = [A.project(o, t) for o in live]
            if got != obs["vals"]:
                j = next(j for j in range(len(got)) if got[j] != obs["vals"][j])
                bad(k, f"after {st['act']} #{st['c']} on instance {st['i']}, instance {j + 1} is {str(got[j])[:300]} but the specification says {str(obs['vals'][j])[:300]}")
                break
            stop = False
            for j, o in enumerate(live):
                if obs["dumps"][j] != [-1]:
                    try:
                        d = list(o.dumps())
                    except Exception as e:  # noqa: BLE001
                        d = f"{type(e).__name__}: {e}"
                    if d != obs["dumps"][j]:
                        bad(k, f"instance {j + 1} dumps {str(d)[:200]}, specification {obs['dumps'][j]}")
                        stop = True
                        break
                if observed(lambda: bool(o)) != (obs["bool"][j], False):      # noqa: B023
                    bad(k, f"bool(instance {j + 1}) is {observed(lambda: bool(o))} (value, raised), specification {obs['bool'][j]} for {str(got[j])[:200]}")      # noqa: B023
                    stop = True
                    break
                for j2, o2 in enumerate(live):
                    eq = observed(lambda: o == o2)[0] if not observed(lambda: o == o2)[1] else None      # noqa: B023
                    if eq != obs["eq"][j][j2]:
                        bad(k, f"instance {j + 1} == instance {j2 + 1} is {eq}, specification {obs['eq'][j][j2]}")
                        stop = True
                        break
                    if eq:
                        try:
                            if hash(o) != hash(o2):
                                bad(k, f"instances {j + 1} and {j2 + 1} are equal but hash differently")
                                stop = True
                                break
                        except TypeError:
                            pass
                if stop:
                    break
            if stop:
                break
    rep.extra["tlc_behaviours_replayed"] = len(behaviours)
    rep.extra["tlc_behaviour_steps_replayed"] = nsteps
    rep.extra["tlc_behaviour_actions"] = acts
    rep.traces += len(behaviours)
    rep.evaluations += nsteps
