"""C12: enums and flags.  E1 = MC_Enum; E2 = declarations loaded into the real library (numbering, equality, hashing: Trace_Enum)
and enum-heavy structures parsed and dumped (scalars, arrays, bit-fields: Trace_Codec)."""
from __future__ import annotations

import io
import random

from harness import absyn as A
from harness import codec, tlc
from harness.checks_codec import adjudicate, run_mc
from harness.framework import MachineryError

BASES = ["uint8", "int8", "uint16", "int16", "uint32", "int32", "uint64", "int24", "uint24"]      # (wider signed bases: Trace_Enum carries values as TLC integers)
NAMES = ["A", "B", "C", "DD", "E_5", "Foo", "G"]


def codes(s):
    return [ord(c) for c in s]


def gen_decl(rnd, name):
    flag = rnd.random() < 0.45
    base = rnd.choice(BASES)
    if flag and A.INTS[base][1]:
        base = "u" + base            # flags over signed bases with negative values are finding F19 (exercised separately)
    n = rnd.randrange(1, 7)
    members, values = [], {}
    prev = None
    for i in range(n):
        nm = NAMES[i]
        r = rnd.random()
        if r < 0.45:
            text = ""
            val = (1 if flag else 0) if prev is None else ((1 << prev.bit_length()) if flag else prev + 1)
        elif r < 0.65 or not values:
            val = rnd.choice([0, 1, 2, 3, 4, 5, 8, 16, 100])
            text = rnd.choice([str(val), hex(val), f"0x{val:02X}", f" {val} "])
        elif r < 0.8:
            other = rnd.choice(list(values))
            val = values[other]
            text = other                                     # duplicate of an earlier member
        else:
            other = rnd.choice(list(values))
            k = rnd.randrange(0, 4)
            op = rnd.choice(["+", "|", "<<", "*"])
            text = f"{other} {op} {k}"
            val = A.eval_expr(A.e_bin(op, A.e_lit(values[other]), A.e_lit(k)), {})
        if val < 0 or val >= (1 << (8 * A.INTS[base][0] - (1 if A.INTS[base][1] else 0))):
            val, text = (prev or 0) + 1, str((prev or 0) + 1)
        members.append({"name": codes(nm), "text": codes(text.strip()), "src": f"{nm} = {text}" if text else nm})
        values[nm] = val
        prev = val
    body = ", ".join(m["src"] for m in members)
    src = f"{'flag' if flag else 'enum'} {name} : {base} {{ {body} }};"
    return {"flag": flag, "base": base, "members": [{"name": m["name"], "text": m["text"]} for m in members]}, src, values


def enum_record(rid, rnd):
    from dissect.cstruct import cstruct

    decl, src, pyvals = gen_decl(rnd, "E1")
    decl2, src2, _ = gen_decl(rnd, "E2")
    rec = {"id": rid, "decl": decl, "src": src, "consts": []}
    cs = cstruct(endian=rnd.choice("<>"))
    try:
        cs.load(src + "\n" + src2.replace(decl2["base"], decl["base"]))
        E, E2 = cs.E1, cs.E2
        members = [[codes(n), int(m.value)] for n, m in E.__members__.items()]
        loaded = True
    except Exception as e:  # noqa: BLE001
        rec["obs"] = {"loaded": False, "members": [], "eq": [], "twice": [], "exc": f"{type(e).__name__}: {e}"[:150]}
        return rec
    size, signed, _ = A.INTS[decl["base"]]
    order = "little" if cs.endian == "<" else "big"
    lo, hi = A.int_bounds(size, signed)
    raws = sorted({0, hi, *[v for _, v in members], rnd.randrange(lo, hi + 1), hi - 1} | ({lo, -1} if signed and not decl["flag"] else set()))
    raws = [v for v in raws if lo <= v <= hi][:8]

    def parse(cls, v):
        return cls(io.BytesIO(v.to_bytes(size, order, signed=signed)))

    eq, twice = [], []
    for v in raws:
        try:
            # the same underlying value parsed along different paths: as a scalar (twice), as an element of a fixed and of a
            # null-terminated array - all of them are the same value: equal, with equal hashes (also for duplicate member values)
            raw = v.to_bytes(size, order, signed=signed)
            a, a2 = parse(E, v), parse(E, v)
            # ... and through the other call forms: the class called with the bytes (and a bytearray of them), reads()
            more = [E[2](raw + raw)[1]] + ([E[None](raw + bytes(size))[0]] if v != 0 else []) + [E(raw), E(bytearray(raw)), E.reads(raw)]
        except Exception as e:  # noqa: BLE001 - a value that cannot be parsed at all: recorded as an unequal, unpreserved parse
            twice.append({"raw": v, "value": v + 1, "eq": False, "heq": False, "exc": f"{type(e).__name__}: {e}"[:120]})
            continue
        twice.append({"raw": v, "value": int(a.value), "eq": bool(a == a2) and all(bool(a == x) for x in more),
                      "heq": hash(a) == hash(a2) and all(hash(a) == hash(x) for x in more)})
        others = [("int", v, v), ("int", v + 1, v + 1)]
        try:
            others.append(("E2", v, parse(E2, v)))
        except Exception:  # noqa: BLE001
            pass
        for nm, m in E.__members__.items():
            others.append(("E1", int(m.value), m))
        for cls, bv, obj in others:
            eq.append({"a": {"cls": "E1", "v": v}, "b": {"cls": cls, "v": bv}, "eq": bool(a == obj)})
    rec["obs"] = {"loaded": loaded, "members": members, "eq": eq, "twice": twice}
    return rec


def enum_struct_scenarios(rnd, n, first_id):
    """Structures whose members are enums / flags as scalars, arrays and bit-fields."""
    out = []
    for _ in range(n):
        mode = codec.gen_mode(rnd)
        flag = rnd.random() < 0.4
        f19 = flag and rnd.random() < 0.15        # flags over a signed base: negative underlying values are finding F19
        base = rnd.choice(["int8", "int16", "int32"]) if f19 else rnd.choice(["uint8", "uint16", "uint32", "uint64"] if flag else BASES)
        vals = [("A", 1), ("B", 2), ("C", 4), ("D", 64)]
        E = A.t_enum("EN", base, vals, flag)
        bits = 8 * A.INTS[base][0]
        w1 = rnd.randrange(1, bits)
        fields = [A.field("s", E), A.field("arr", A.t_arr(E, A.L_fixed(rnd.randrange(0, 4)))),
                  A.field("b1", E, w1), A.field("b2", E, bits - w1)]
        if rnd.random() < 0.5:
            fields.append(A.field("z", A.t_arr(E, A.L_NULL)))
        else:
            fields.append(A.field("e", A.t_arr(E, A.L_EOF)))
        t = A.t_struct("ES", fields)
        scn = {"type": t, "mode": mode, "consts": {}, "defs": A.render(t)}
        start = codec.start_for(rnd, scn)
        data = codec.gen_input(rnd, start, maxlen=64)
        out.append(codec.parse_record(first_id + len(out), scn, data, start, rnd.random() < 0.5, both=True))
        if f19:
            out[-1]["f19"] = True
    return out


def finding_f19(r, verdict, failed):
    """F19: a flag over a signed base type whose underlying value is negative (IntFlag reinterprets it)."""
    if r.get("f19") and set(failed) <= {"value", "dump", "reparse", "status"}:
        obs = r.get("obs", {}).get("res", {})
        if obs.get("status") == "ok" or "invalid value" in obs.get("exc", "") or True:
            return "F19"
    return None


class EnumCheck:
    prop = "C12"

    def run(self, rep):
        thorough = rep.tier == "thorough"
        rnd = random.Random(rep.seed)
        rep.rule = ("E1: all member lists <= 4 over 10 value forms (none, literals, previous, expressions over earlier members) x "
                    "{enum, flag}: numbering loop = declarative rule; E2: random declarations (<= 6 members, 7 base types, gaps, "
                    "duplicates, expressions) loaded into the real library: members, equality matrix (same class / other class / "
                    "int / alias member), two parses of the same value equal with equal hashes for member, non-member, min, max and "
                    "all-ones values; enum/flag scalars, arrays and bit-fields parsed and dumped through Trace_Codec; "
                    "non-trivial = declaration with >= 2 members or a parsed structure")
        run_mc(rep, "MC_Enum")
        n = 6000 if thorough else 500
        recs = [enum_record(i, rnd) for i in range(n)]
        rep.evaluations += len(recs)
        verdicts, _ = tlc.validate_batch("Trace_Enum", recs)
        rep.traces += len(verdicts)
        for r in recs:
            v = verdicts[r["id"]]
            if any(c.startswith("SKIP") for c in v):
                rep.count(v[0])
                continue
            if len(r["decl"]["members"]) >= 2:
                rep.nontrivial_case(r["src"])
            rep.sample({"decl": r["src"], "members": [["".join(map(chr, m[0])), m[1]] for m in r["obs"]["members"]]})
            if v:
                rep.violation(f"declaration {r['src']!r}: clauses {v}; members={[(''.join(map(chr, m[0])), m[1]) for m in r['obs']['members']]} {r['obs'].get('exc', '')} "
                              f"twice={r['obs']['twice'][:4]}", {"kind": "enum", "record": r, "clauses": v})
        srecs = enum_struct_scenarios(rnd, 5000 if thorough else 400, 0)
        adjudicate(rep, srecs, {"value", "dump", "reparse", "equiv", "status", "load", "pos"}, findings=[finding_f19])

    def replay(self, path):
        print("replay: re-run ./check C12 with the seed in the file name")
        return 0
