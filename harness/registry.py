"""All checks, by property id."""
import random

from harness import codec
from harness.checks_codec import CodecCheck

CHECKS = {}

RAND_RULE = ("scenario = (definition, mode, reader, start offset, input); the bounded universe U_small is enumerated and seeded "
             "random definitions are added (depth<=2, <=5 fields, every scalar kind, bit-fields on 10 storage types, arrays in the "
             "4 length forms, nested/anonymous structs and unions, pointers, constants); ")
DOMAIN = ["aligned structures start at multiples of 16 (>= every alignment)",
          "float numeric interpretation and UTF-16 encoding of expected strings are done by the projection (struct / str), not by TLA+",
          "NaN floats and non-minimal LEB128 are outside the domain (spec flags, counted in domain_exclusions)"]


def c01_extra(rep, rnd, first_id):
    n = 12000 if rep.tier == "thorough" else 700
    return codec.value_batch(n, rnd.randrange(1 << 30), first_id=first_id)


CHECKS["C01"] = CodecCheck(
    "C01", {"dump", "reparse", "reject", "load"},
    rule=RAND_RULE + "values come from parsing (dump, re-parse) and from direct construction with boundary leaf values; every "
         "constructed value is paired with a copy in which one int/enum/pointer leaf does not fit and must be refused; "
         "non-trivial = a value was dumped (or refused) and compared with Encode/Fits of the specification",
    quick_n=900, thorough_n=30000, extra=c01_extra, assumptions=DOMAIN,
    nontrivial=lambda r: r["kind"] == "value" or r["obs"]["res"]["status"] == "ok")

CHECKS["C02"] = CodecCheck(
    "C02", {"fidelity", "load"},
    rule=RAND_RULE + "non-trivial = parse succeeded, so that dumps() was compared bit for bit with the consumed input under the "
         "DataMask of the specification",
    quick_n=1500, thorough_n=40000, assumptions=DOMAIN)

CHECKS["C03"] = CodecCheck(
    "C03", {"equiv", "equiv-layout", "compilable", "load"},
    rule=RAND_RULE + "every scenario is run through both readers; non-trivial = the definition was compiled (not fallen back) "
         "and the compiled run was compared with the interpreted run and with Decode",
    quick_n=1500, thorough_n=40000, both=True, compiled=True, assumptions=DOMAIN,
    nontrivial=lambda r: bool(r.get("obs", {}).get("compiled")))


def c04_extra(rep, rnd, first_id):
    n = 6000 if rep.tier == "thorough" else 400
    recs = codec.random_batch(n, rnd.randrange(1 << 30), {"null": False, "eof": False, "expr": False, "leb": False},
                              first_id=first_id)
    return [codec.enrich(r, sizeof=True) for r in recs]


CHECKS["C04"] = CodecCheck(
    "C04", {"layout", "sizeagree", "load"},
    rule=RAND_RULE + "an extra family uses fixed-size members only, for which len(T), sizeof(T) evaluated by a real Expression, "
         "bytes consumed and bytes dumped are compared with SizeOf; non-trivial = layout (size, alignment, all offsets) compared "
         "with CLayout",
    quick_n=800, thorough_n=20000, extra=c04_extra, assumptions=DOMAIN, nontrivial=lambda r: "obs" in r)


def c09_extra(rep, rnd, first_id):
    n = 2500 if rep.tier == "thorough" else 150
    out = []
    r2 = random.Random(rnd.randrange(1 << 30))
    for r in codec.random_batch(n, r2.randrange(1 << 30), first_id=first_id):
        out.append(codec.enrich(r, forms=True))
    rid = first_id + n
    for _ in range(n):
        scn = codec.gen_scenario(r2, {"eof": False})
        hs = codec.history_records(rid, scn, r2, r2.random() < 0.5)
        out += hs
        rid += len(hs) + 1
    return out


CHECKS["C09"] = CodecCheck(
    "C09", {"value", "pos", "sizes", "status", "forms", "load"},
    rule=RAND_RULE + "start offsets 0..17 (multiples of 16 when aligned) with random prefix bytes and trailing bytes; extra "
         "families: every call form x input kind on the same bytes (T(x), T.read, T.reads, cs.read x bytes, bytearray, "
         "memoryview, BytesIO, minimal file-like) and histories of consecutive parses on one stream; non-trivial = parse ok",
    quick_n=900, thorough_n=25000, extra=c09_extra, assumptions=DOMAIN)
