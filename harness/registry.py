"""All checks, by property id."""
import random

from harness import codec
from harness.checks_codec import CodecCheck

CHECKS = {}

RAND_RULE = ("scenario = (definition, mode, reader, start offset, input); the bounded universe U_small is enumerated and seeded "
             "random definitions are added (depth<=2, <=5 fields, every scalar kind, bit-fields on 10 storage types, arrays in the "
             "4 length forms, nested/anonymous structs and unions, pointers, constants); ")
DOMAIN = ["float numeric interpretation and UTF-16 encoding of expected strings are done by the projection (struct / str), not by TLA+",
          "NaN floats and non-minimal LEB128 are outside the domain (spec flags, counted in domain_exclusions)"]


def c01_extra(rep, rnd, first_id):
    from harness import absyn as A

    n = 12000 if rep.tier == "thorough" else 700
    out = codec.value_batch(n, rnd.randrange(1 << 30), first_id=first_id)
    # unions whose largest member is smaller than the (aligned) union: the writer pads them to their size - also when they are
    # not written at position 0 (array elements, members behind a dynamic member; seed S110).  Parsed values, dumped, re-parsed.
    u8 = A.t_int("uint8")
    for _ in range(300 if rep.tier == "thorough" else 40):
        big, small, cnt = rnd.choice([("uint64", "uint32", 3), ("uint32", "uint8", 5), ("uint16", "uint8", 3), ("uint64", "uint16", 5)])
        un = A.t_struct("UP", [A.field("a", A.t_int(big)), A.field("b", A.t_arr(A.t_int(small), A.L_fixed(cnt)))], union=True)
        shape = rnd.randrange(3)
        if shape == 0:
            t = A.t_struct("UPH", [A.field("tag", A.t_int("uint16")), A.field("items", A.t_arr(un, A.L_fixed(3))), A.field("end", A.t_int("uint16"))])
        elif shape == 1:
            t = A.t_struct("UPH", [A.field("n", u8), A.field("s", A.t_arr(A.t_char(), A.L_expr({"k": "id", "name": "n"}))), A.field("u", un),
                                   A.field("t", A.t_arr(u8, A.L_fixed(2)))])
        else:
            t = A.t_struct("UPH", [A.field("n", u8), A.field("v", A.t_arr(un, A.L_expr({"k": "id", "name": "n"}))), A.field("t", u8)])
        mode = {"endian": rnd.choice("<>"), "align": True, "ptr": 8}
        scn = {"type": t, "mode": mode, "consts": {}, "defs": A.render(t, {})}
        start = rnd.choice([0, 0, 8])
        data = bytes(start) + bytes([rnd.choice([1, 2, 3])]) + bytes(rnd.randrange(1, 256) for _ in range(120))
        out.append(codec.parse_record(first_id + len(out), scn, data, start, rnd.random() < 0.5, both=True))
    return out


CHECKS["C01"] = CodecCheck(
    "C01", {"dump", "reparse", "reject", "load"},
    rule=RAND_RULE + "values come from parsing (dump, re-parse) and from direct construction with boundary leaf values; every "
         "constructed value is paired with a copy in which one int/enum/pointer leaf does not fit and must be refused; "
         "non-trivial = a value was dumped (or refused) and compared with Encode/Fits of the specification",
    quick_n=900, thorough_n=30000, extra=c01_extra, assumptions=DOMAIN,
    nontrivial=lambda r: r["kind"] == "value" or r["obs"]["res"]["status"] == "ok")

def special_values_family(rnd, first_id, n):
    """Structures of scalar members whose input is put together from the *remarkable* encodings of each member type: floats
    +0 / -0 / +-inf / smallest subnormal / largest, integers 0 / -1 / min / max, empty and full strings.  Values that are falsy,
    compare equal to another value (-0.0 == 0.0) or sit at a boundary are where a writer that "simplifies" goes wrong."""
    import struct as st

    from harness import absyn as A

    out = []
    fl = {"float16": "e", "float": "f", "double": "d"}
    specials = {"e": [0.0, -0.0, float("inf"), float("-inf"), 5.960464477539063e-08, 65504.0, 1.0, -1.5],
                "f": [0.0, -0.0, float("inf"), float("-inf"), 1.401298464324817e-45, 3.4028234663852886e+38, 1.0, -1.5],
                "d": [0.0, -0.0, float("inf"), float("-inf"), 5e-324, 1.7976931348623157e+308, 1.0, -1.5]}
    while len(out) < n:
        mode = {"endian": rnd.choice("<>"), "align": False, "ptr": 8}
        e = mode["endian"]
        fields, data = [], b""
        for j in range(rnd.randrange(1, 6)):
            kind = rnd.choice(["float16", "float", "double", "float", "double", "int", "char", "leb", "leb"])
            cnt = rnd.choice([0, 0, 0, 2])
            if kind == "leb":
                # the minimal encodings around every 7-bit boundary: where an encoder decides whether one more byte is needed
                from harness.checks_scalar import leb_bytes
                signed = rnd.random() < 0.6
                ty = A.t_leb(signed)
                k7 = rnd.choice([1, 1, 2, 3, 5, 9, 10])
                pool = [0, 1, (1 << (7 * k7 - 1)) - 1, 1 << (7 * k7 - 1), (1 << (7 * k7)) - 1, 1 << (7 * k7)]
                if signed:
                    pool += [-1, -(1 << (7 * k7 - 1)), -(1 << (7 * k7 - 1)) - 1, -(1 << (7 * k7)), -(1 << (7 * k7)) + 1, -(1 << (7 * k7)) - 1]
                enc = lambda: leb_bytes(rnd.choice(pool), signed)      # noqa: E731
            elif kind in fl:
                ty = A.t_float(kind)
                enc = lambda: st.pack(e + fl[kind], rnd.choice(specials[fl[kind]]))      # noqa: E731
            elif kind == "int":
                name = rnd.choice(["int8", "uint16", "int32", "int64", "uint64"])
                ty = A.t_int(name)
                size = ty["size"]
                enc = lambda: rnd.choice([bytes(size), b"\xff" * size, b"\x80" + bytes(size - 1), bytes(size - 1) + b"\x80", b"\x7f" + b"\xff" * (size - 1)])  # noqa: E731
            else:
                ty = A.t_char()
                enc = lambda: rnd.choice([b"\x00", b" ", b"\xff", b"A"])      # noqa: E731
            if cnt:
                ty = A.t_arr(ty, A.L_fixed(cnt))
                data += b"".join(enc() for _ in range(cnt))
            else:
                data += enc()
            fields.append(A.field(f"f{j}", ty))
        if rnd.random() < 0.4:      # the same members once more inside a nested structure
            inner = A.t_struct("SVI", [dict(f) for f in fields])
            fields = fields + [A.field("n", inner)]
            data = data + data
        t = A.t_struct("SV", fields)
        scn = {"type": t, "mode": mode, "consts": {}, "defs": A.render(t, {})}
        out.append(codec.parse_record(first_id + len(out), scn, data + bytes(rnd.randrange(0, 3)), 0, rnd.random() < 0.5, both=True))
    return out


def c02_extra(rep, rnd, first_id):
    from harness import absyn as A

    out = special_values_family(rnd, first_id, 2500 if rep.tier == "thorough" else 150)
    # bit-field runs separated by another member (dynamic, scalar, nested structure): the run behind it starts a fresh unit, and
    # what is parsed from it goes back into the dump bit for bit (seed S140)
    split = [t for t in bitfield_family(rnd, False) if any(f["name"] == "mid" for f in t["fields"])]
    for t in rnd.sample(split, min(len(split), 400 if rep.tier == "thorough" else 50)):
        mode = {"endian": rnd.choice("<>"), "align": rnd.random() < 0.5, "ptr": 8}
        scn = {"type": t, "mode": mode, "consts": {}, "defs": A.render(t)}
        if not codec.load_record(0, scn, True)["loaded"]:
            continue
        data = bytes(rnd.choice([0xFF, 0x80, 0x01, rnd.randrange(1, 256)]) for _ in range(3)) + b"\x01\x00" + bytes(rnd.randrange(1, 256) for _ in range(40))
        out.append(codec.parse_record(first_id + len(out), scn, data, 0, rnd.random() < 0.7, both=True))
    return out


CHECKS["C02"] = CodecCheck(
    "C02", {"fidelity", "load"},
    rule=RAND_RULE + "plus structures fed with the remarkable encodings of their members (floats +-0, +-inf, subnormal, largest; "
         "integer boundaries; empty strings); non-trivial = parse succeeded, so that dumps() was compared bit for bit with the "
         "consumed input under the DataMask of the specification",
    quick_n=1500, thorough_n=40000, extra=c02_extra, assumptions=DOMAIN)

def c03_extra(rep, rnd, first_id):
    """Both readers on TRUNCATED inputs (neither may return a value the other contradicts)."""
    from harness import absyn as A

    out = []
    cases = A.universe(2) if rep.tier == "thorough" else rnd.sample(A.universe(1), 120) + rnd.sample(A.universe(2), 250)
    for c in cases:
        consts = {k: v for k, v in c["consts"].items() if k != "_"}
        scn = {"type": c["type"], "mode": c["mode"], "consts": consts, "defs": A.render(c["type"], consts)}
        start = codec.start_for(rnd, scn)
        body = bytes(range(1, 41))
        try:
            size = getattr(codec.load(scn["defs"], scn["mode"], False), c["type"]["name"]).size
        except Exception:  # noqa: BLE001 - ill-formed universe members are judged by the load clause elsewhere
            continue
        cuts = {rnd.randrange(0, 24)} | ({size - 1, max(0, size - 2)} if size else {rnd.randrange(0, 8)})
        for cut in sorted(cuts):
            data = bytes(rnd.randrange(256) for _ in range(start)) + body[:cut]
            out.append(codec.parse_record(first_id + len(out), scn, data, start, True, both=True))
    out += anon_context_family(rnd, first_id + len(out), 300 if rep.tier == "thorough" else 50)
    out += overlay_family(rnd, first_id + len(out), 300 if rep.tier == "thorough" else 40)
    return out


def overlay_family(rnd, first_id, n):
    """Fields added with explicit offsets (forward gaps, overlays going backwards): the specification has no layout rule for
    them, but both readers must return the same thing (records of kind `readers`)."""
    import io

    from dissect.cstruct import cstruct

    from dissect.cstruct.types import BaseType

    class My(BaseType):
        """A user type (cstruct.add_custom_type): two bytes, little endian - the source generator knows nothing about it."""

        @classmethod
        def _read(cls, stream, context=None):
            data = stream.read(2)
            if len(data) != 2:
                raise EOFError
            return int.from_bytes(data, "little")

        @classmethod
        def _write(cls, stream, data):
            return stream.write(int(data).to_bytes(2, "little"))

    out = []
    names = ["uint8", "uint16", "uint32", "int24", "char", "uint64"]
    for _ in range(n):
        mode = codec.gen_mode(rnd)
        base = [rnd.choice(names) for _ in range(rnd.randrange(1, 4))]
        if rnd.random() < 0.3:
            base.insert(rnd.randrange(len(base) + 1), rnd.choice(["my", "my[2]", "my[1][2]"]))        # custom type members: fall back, do not skip
        if rnd.random() < 0.3:
            base.insert(rnd.randrange(len(base) + 1), "DYN")                                          # a dynamically sized member before the added fields
        adds = [(rnd.choice(names), rnd.choice([None, 0, 1, 2, 3, 5, 8, 12])) for _ in range(rnd.randrange(1, 5))]

        def decl(i, ty):
            if ty == "DYN":
                return f"uint8 n{i}; char d{i}[n{i} & 3];"
            if "[" in ty:
                return f"{ty[:ty.index('[')]} b{i}{ty[ty.index('['):]};"
            return f"{ty} b{i};"

        text = "struct OV { " + " ".join(decl(i, ty) for i, ty in enumerate(base)) + " };"
        desc = text + " + " + ", ".join(f"{ty} @ {off}" for ty, off in adds)
        data = bytes(range(1, 41))
        start = codec.start_for(rnd, {"mode": mode})
        stream_data = bytes(rnd.randrange(256) for _ in range(start)) + data
        obs = {}
        for key, compiled in (("", True), ("2", False)):
            cs = codec.new_cs(mode)
            cs.add_custom_type("my", My, 2, 2)
            cs.load(text, compiled=compiled, align=mode["align"])
            T = cs.OV
            try:
                for i, (ty, off) in enumerate(adds):
                    T.add_field(f"x{i}", cs.resolve(ty), offset=off)
            except Exception as e:  # noqa: BLE001
                obs["layout" + key] = {"size": -2, "align": 0, "offs": []}
                obs["res" + key] = {"status": "error", "exc": f"add_field: {type(e).__name__}: {e}"[:150], "v": codec.NONE_V, "pos": 0, "sizes": []}
                continue
            st = io.BytesIO(stream_data)
            st.seek(start)
            try:
                v = T.read(st)
                vals = [[f._name, repr(getattr(v, f._name))] for f in T.__fields__]
                obs["res" + key] = {"status": "ok", "exc": "", "v": {"k": "raw", "fields": vals}, "pos": st.tell(), "sizes": codec.sizes_of(v, T)}
            except Exception as e:  # noqa: BLE001
                obs["res" + key] = {"status": codec.classify(e), "exc": f"{type(e).__name__}: {e}"[:150], "v": codec.NONE_V, "pos": 0, "sizes": []}
            obs["layout" + key] = A_project_layout(T)
        out.append({"id": first_id + len(out), "kind": "readers", "type": {"k": "void"}, "mode": mode, "consts": {"_": 0}, "input": list(stream_data),
                    "start": start, "defs": desc, "req_compiled": True, "tag": "overlay", "obs": obs})
    return out


def A_project_layout(T):
    from harness import absyn as A

    return A.project_layout(T)


CHECKS["C03"] = CodecCheck(
    "C03", {"equiv", "equiv-layout", "compilable", "load"},
    rule=RAND_RULE + "every scenario is run through both readers; non-trivial = the definition was compiled (not fallen back) "
         "and the compiled run was compared with the interpreted run and with Decode",
    quick_n=1200, thorough_n=40000, both=True, compiled=True, assumptions=DOMAIN, quick_pairs=700, extra=c03_extra,
    nontrivial=lambda r: bool(r.get("obs", {}).get("compiled")))


def c04_extra(rep, rnd, first_id):
    n = 6000 if rep.tier == "thorough" else 400
    recs = codec.random_batch(n, rnd.randrange(1 << 30), {"null": False, "eof": False, "expr": False, "leb": False},
                              first_id=first_id)
    cabi = codec.ctypes_records(3000 if rep.tier == "thorough" else 300, rnd.randrange(1 << 30), first_id=first_id + n)
    rep.extra["ctypes_layouts_validating_the_spec"] = len(cabi)
    out = [codec.enrich(r, sizeof=True) for r in recs] + cabi
    # a cstruct object that was used under another pointer width before (seed S113): pointer-heavy definitions loaded after the switch
    r2 = random.Random(rnd.randrange(1 << 30))
    for _ in range(600 if rep.tier == "thorough" else 60):
        scn = codec.gen_scenario(r2, {"null": False, "eof": False, "expr": False, "leb": False, "w": (0.3, 0.35, 0.5, 0.95, 0.97)})
        scn["mode"] = dict(scn["mode"], preload_ptr=r2.choice([w for w in (1, 2, 4, 8) if w != scn["mode"]["ptr"]]))
        start = codec.start_for(r2, scn)
        out.append(codec.enrich(codec.parse_record(first_id + n + 5000 + len(out), scn, codec.gen_input(r2, start, maxlen=90), start, r2.random() < 0.5), sizeof=True))
    # aligned structures INSIDE packed ones (and the other way round): every separately declared structure has its own align=
    # setting, so an aligned structure is read and written at positions that are not multiples of its alignment (seed S143)
    made = 0
    for _ in range(3000 if rep.tier == "thorough" else 400):
        if made >= (400 if rep.tier == "thorough" else 60):
            break
        scn = codec.gen_scenario(r2, {"null": False, "eof": False, "expr": False, "leb": False, "mixalign": False, "depth": 2,
                                      "w": (0.35, 0.4, 0.85, 0.88, 0.9)})
        mixed = codec.mix_alignment(scn, r2)
        if not mixed:
            continue
        made += 1
        start = codec.start_for(r2, mixed)
        out.append(codec.enrich(codec.parse_record(first_id + n + 9000 + len(out), mixed, codec.gen_input(r2, start, maxlen=120), start, r2.random() < 0.5), sizeof=True))
    return out


CHECKS["C04"] = CodecCheck(
    "C04", {"layout", "sizeagree", "write-count", "load"},
    rule=RAND_RULE + "an extra family uses fixed-size members only, for which len(T), sizeof(T) evaluated by a real Expression, "
         "bytes consumed and bytes dumped are compared with SizeOf; non-trivial = layout (size, alignment, all offsets) compared "
         "with CLayout",
    quick_n=800, thorough_n=20000, extra=c04_extra, assumptions=DOMAIN, nontrivial=lambda r: "obs" in r)


def c09_extra(rep, rnd, first_id):
    n = 2500 if rep.tier == "thorough" else 150
    out = []
    r2 = random.Random(rnd.randrange(1 << 30))
    for r in codec.random_batch(n, r2.randrange(1 << 30), first_id=first_id):
        out.append(codec.enrich(r, forms=True))
    # structures with a single character-like member: T(bytes of exactly that length) is the documented value shortcut for a
    # plain char member and nothing else (finding F48: a char bit field holds an integer)
    from harness import absyn as A

    singles = [A.field("a", A.t_char()), A.field("a", A.t_char(), 8), A.field("a", A.t_char(), 3), A.field("a", A.t_arr(A.t_char(), A.L_fixed(2))),
               A.field("a", A.t_int("uint8")), A.field("a", A.t_wchar())]
    for f in singles + [None, None]:
        for e in "<>":
            if f is None:
                # more than one member, the first one character-like: T(bytes of the first member's length) is an input like any other
                k = r2.choice([1, 2, 4])
                first = A.field("raw", A.t_char() if k == 1 else A.t_arr(A.t_char(), A.L_fixed(k)))
                t = A.t_struct("MANY", [first, A.field("val", A.t_int("uint32")), A.field("half", A.t_arr(A.t_int("uint16"), A.L_fixed(2)))],
                               union=r2.random() < 0.5)
                scn = {"type": t, "mode": {"endian": e, "align": False, "ptr": 8}, "consts": {}, "defs": A.render(t, {})}
                for data in (b"ABCD"[:k], b"ABCDEFGHIJKL", b"AB"):
                    out.append(codec.enrich(codec.parse_record(first_id + n + len(out), scn, data, 0, r2.random() < 0.5), forms=True))
                continue
            t = A.t_struct("ONE", [f])
            scn = {"type": t, "mode": {"endian": e, "align": False, "ptr": 8}, "consts": {}, "defs": A.render(t, {})}
            for data in (b"A", b"AB", b"\x00", b"\xff\x01"):
                out.append(codec.enrich(codec.parse_record(first_id + n + len(out), scn, data, 0, r2.random() < 0.5), forms=True))
    # "to the end of the stream" measured from where the structure starts, not from the stream's first byte (seed S85): arrays of
    # every element kind, behind a header or not, at a non-zero position, on input that holds a whole number of elements
    u8 = A.t_int("uint8")
    pair = A.t_struct("ep", [A.field("a", u8), A.field("b", A.t_int("uint16"))])
    upair = A.t_struct("eu", [A.field("a", u8), A.field("b", A.t_int("uint16"))], union=True)
    e24 = A.t_enum("EE", "uint24", [("A", 1), ("B", 2)])
    elems = [(A.t_int("uint24"), 3), (A.t_int("int48"), 6), (pair, 3), (upair, 2), (e24, 3), (A.t_arr(u8, A.L_fixed(3)), 3), (A.t_int("uint16"), 2),
             (A.t_int("int128"), 16), (A.t_wchar(), 2), (A.t_ptr(u8), 8), (A.t_float("float"), 4)]
    for _ in range(max(40, n // 4)):
        elem, esz = r2.choice(elems)
        fields = ([A.field("h", A.t_int("uint32"))] if r2.random() < 0.5 else []) + [A.field("x", A.t_arr(elem, A.L_EOF))]
        t = A.t_struct("TOEND", fields)
        scn = {"type": t, "mode": {"endian": r2.choice("<>"), "align": False, "ptr": 8}, "consts": {}, "defs": A.render(t, {})}
        start = r2.randrange(0, 9)
        body = bytes(r2.randrange(1, 256) for _ in range((4 if len(fields) == 2 else 0) + esz * r2.randrange(0, 4)))
        out.append(codec.enrich(codec.parse_record(first_id + n + 50 + len(out), scn, bytes(r2.randrange(256) for _ in range(start)) + body, start,
                                                   r2.random() < 0.5, both=True), forms=r2.random() < 0.3))
    # the parsed type need not be a structure: enums, flags and scalars called / read directly, every call form x input kind
    # (seed S102: an enum called with a bytearray or memoryview took another path than with bytes)
    for _ in range(max(30, n // 5)):
        base = r2.choice(["uint8", "uint16", "int16", "uint24", "uint32", "int64"])
        t = r2.choice([A.t_enum("TopE", base, [("P", 1), ("Q", 2), ("R", 0x31)]),
                       A.t_enum("TopF", base, [("X", 1), ("Y", 4)], flag=True) if not A.INTS[base][1] else A.t_enum("TopE", base, [("P", 1), ("N", -2)]),
                       dict(A.t_int(base)), dict(A.t_leb(True), name="ileb128"), dict(A.t_float("float"), name="float"),
                       dict(A.t_wchar(), name="wchar")])
        scn = {"type": t, "mode": {"endian": r2.choice("<>"), "align": False, "ptr": 8}, "consts": {}, "defs": A.render(t) if t["k"] == "enum" else ""}
        start = r2.choice([0, 0, 3])
        # digits among the bytes: a buffer that int() would take for a literal must still be parsed as bytes
        body = bytes(r2.choice([0x31, 0x32, 0x30, 0x37, 1, 2, 0x80, 0xFF, r2.randrange(256)]) for _ in range(r2.randrange(0, 12)))
        out.append(codec.enrich(codec.parse_record(first_id + n + 50 + len(out), scn, bytes(start) + body, start, False), forms=True))
    rid = first_id + n + 100 + len(out)
    for _ in range(n):
        scn = codec.gen_scenario(r2, {"eof": False})
        hs = codec.history_records(rid, scn, r2, r2.random() < 0.5)
        out += hs
        rid += len(hs) + 1
    return out


CHECKS["C09"] = CodecCheck(
    "C09", {"value", "pos", "sizes", "status", "forms", "load"},
    rule=RAND_RULE + "start offsets 0..17 (also for aligned structures: alignment is relative to the structure's first byte) with random prefix bytes and trailing bytes; extra "
         "families: every call form x input kind on the same bytes (T(x), T.read, T.reads, cs.read x bytes, bytearray, "
         "memoryview, BytesIO, minimal file-like) and histories of consecutive parses on one stream; non-trivial = parse ok",
    quick_n=900, thorough_n=25000, extra=c09_extra, assumptions=DOMAIN)


# ---------------------------------------------------------------------------------------------------- C06
def bitfield_family(rnd, thorough):
    """Enumerated bit-field definitions: storage type x width sequence x neighbours (rendered from abstract types)."""
    from harness import absyn as A

    E8 = A.t_enum("EB", "uint8", [("A", 1), ("B", 2)])
    F16 = A.t_enum("FB", "uint16", [("X", 1), ("Y", 4)], flag=True)
    E24 = A.t_enum("EC", "uint24", [("A", 1), ("B", 2)])
    F48 = A.t_enum("FD", "uint48", [("X", 1), ("Y", 4)], flag=True)
    storages = [A.t_int(n) for n in ("uint8", "int8", "uint16", "int16", "uint32", "int32", "uint64", "int64", "uint24", "int48")] + \
               [A.t_char(), E8, F16, E24, F48]
    neighbours = [None, A.t_int("uint8"), A.t_int("uint32"), A.t_arr(A.t_int("uint8"), A.L_NULL), A.t_leb(False)]
    out = []
    for st in storages:
        total = 8 * A.Storage_size(st)
        seqs = set()
        pool = [1, 2, 3, 4, 5, 7, 8, 12, 15, 16, 31, 33, 63, 64]
        for _ in range(40 if thorough else 6):
            n = rnd.randrange(1, 6)
            seqs.add(tuple(rnd.choice([w for w in pool if w <= total]) for _ in range(n)))
        seqs.add((total,))
        seqs.add((1, total - 1) if total > 1 else (1,))
        seqs.add((total, 1))
        # wider than the storage type itself, opening a fresh unit: first member, after an exhausted unit, after another type (seed S84)
        seqs.add((total + 1,))
        seqs.add((total, total + 1))
        seqs.add((1, total + rnd.randrange(1, 9)))
        for ws in sorted(seqs):
            for before in neighbours:
                for after in (None, A.t_int("uint16"), A.t_int("uint8")):      # uint8: any spurious alignment after the unit shows (F58)
                    fields = []
                    if before is not None:
                        fields.append(A.field("pre", before))
                    fields += [A.field(f"b{i}", st, w) for i, w in enumerate(ws)]
                    if after is not None:
                        fields.append(A.field("post", after))
                    out.append(A.t_struct("BF", fields))
                    if before is None and after is None and len(ws) >= 2:
                        # a dynamically sized (or any other) member BETWEEN two runs: it ends the open unit, the run behind it starts
                        # a fresh one (seed S122) - definitions that fit only a fresh unit, and ones that straddle only a fresh unit
                        for mid in (A.t_arr(A.t_char(), A.L_NULL), A.t_leb(False), A.t_int("uint8"),
                                    A.t_struct("bfin", [A.field("x", A.t_int("uint8"))])):      # a nested structure ends the unit too (seeds S140 / S144)
                            out.append(A.t_struct("BF", [A.field("b0", st, ws[0]), A.field("mid", mid)] + [A.field(f"b{i}", st, w) for i, w in enumerate(ws) if i]))
                    if st["k"] == "enum" and len(ws) > 1:
                        # an enum / flag and its plain base type are the same storage type: they share units
                        mixed = [dict(f) for f in fields]
                        for i, f in enumerate(mixed):
                            if f["name"].startswith("b") and f["bits"] and int(f["name"][1:]) % 2 == (0 if before is None else 1):
                                f["type"] = st["base"]
                        out.append(A.t_struct("BF", mixed))
    return out


def c06_extra(rep, rnd, first_id):
    from harness import absyn as A_
    thorough = rep.tier == "thorough"
    types = bitfield_family(rnd, thorough)
    if not thorough:
        wide = [t for t in types if any(f["bits"] > 8 * A_.Storage_size(f["type"]) for f in t["fields"] if f["bits"])]
        # units whose size is not their alignment (24 / 48 bit), shared by several fields, behind a dynamic member and followed by
        # a byte: every spurious or missing alignment inside the unit moves that byte (finding F58)
        odd = [t for t in types if t["fields"][0]["name"] == "pre" and t["fields"][0]["type"]["k"] in ("arr", "leb")
               and t["fields"][-1]["name"] == "post" and t["fields"][-1]["type"]["name"] == "uint8"
               and sum(1 for f in t["fields"] if f["bits"]) >= 2 and A_.Storage_size(t["fields"][1]["type"]) in (3, 6)]
        split = [t for t in types if any(f["name"] == "mid" for f in t["fields"])]
        types = rnd.sample(types, 400) + rnd.sample(wide, min(60, len(wide))) + rnd.sample(odd, min(60, len(odd))) + rnd.sample(split, min(80, len(split)))
    out = []
    for t in types:
        mode = {"endian": rnd.choice("<>"), "align": rnd.random() < 0.5, "ptr": 8}
        scn = {"type": t, "mode": mode, "consts": {}, "defs": __import__("harness.absyn", fromlist=["x"]).render(t)}
        comp = rnd.random() < 0.5
        out.append(codec.load_record(first_id + len(out), scn, comp))
        if not out[-1]["loaded"]:
            continue
        start = codec.start_for(rnd, scn)
        for pattern in (b"\xff", b"\x80", None):
            body = pattern * 40 if pattern else bytes(rnd.randrange(256) for _ in range(40))
            data = bytes(start) + body
            out.append(codec.parse_record(first_id + len(out), scn, data, start, comp, both=True))
    return out


CHECKS["C06"] = CodecCheck(
    "C06", {"value", "dump", "reparse", "layout", "equiv", "load", "pos"},
    rule="bit-field definitions: enumerated family storage type (13 incl. signed, char, enum, flag, int24/48) x width sequences "
         "(incl. exactly full, full+1 and straddling ones, which must be rejected) x neighbours (none, scalar, dynamic) x endian x "
         "alignment x reader, on FF / 80 / random unit contents, plus random definitions with a raised share of bit-field runs; "
         "non-trivial = a definition with at least one bit-field whose values, dump and layout were compared",
    quick_n=700, thorough_n=20000, cfg={"w": (0.2, 0.6, 0.75, 0.8, 0.82)}, both=True, extra=c06_extra, assumptions=DOMAIN,
    mc_models=("MC_Codec", "MC_Bits"),
    nontrivial=lambda r: ":" in r["defs"].split("{", 1)[-1] and "obs" in r)


# ---------------------------------------------------------------------------------------------------- C07
def anon_context_family(rnd, first_id, n):
    """The members of anonymous structure / union members are members of the enclosing structure: lengths after them may name
    them - also those of an anonymous member that is not the most recent one, and of anonymous members nested in them."""
    from harness import absyn as A

    out = []
    for _ in range(n):
        mode = codec.gen_mode(rnd)
        u8 = A.t_int("uint8")
        inner2 = A.t_struct("", [A.field("m", u8), A.field("w", A.t_int("uint16"))], union=rnd.random() < 0.3)
        inner = A.t_struct("", [A.field("n", u8), A.field("", inner2, anon=True)] if rnd.random() < 0.6 else [A.field("n", u8), A.field("m", u8)],
                           union=rnd.random() < 0.2)
        second = A.t_struct("", [A.field("p", u8), A.field("q", u8)], union=rnd.random() < 0.3)
        elem = rnd.choice([u8, A.t_int("uint16"), A.t_char(), A.t_int("int24")])
        lens = [A.e_bin("&", A.e_id("n"), A.e_lit(3)), A.e_bin("+", A.e_bin("&", A.e_id("m"), A.e_lit(1)), A.e_bin("&", A.e_id("k"), A.e_lit(1))),
                A.e_bin("&", A.e_bin("*", A.e_id("n"), A.e_id("m")), A.e_lit(3)),
                # naming ONLY a member of the anonymous member nested in the anonymous member (two levels down; seed S123)
                A.e_bin("&", A.e_id("m"), A.e_lit(3)), A.e_bin("&", A.e_id("m"), A.e_lit(3))]
        two = rnd.random() < 0.5
        if two:
            lens.append(A.e_bin("&", A.e_bin("+", A.e_id("n"), A.e_id("q")), A.e_lit(3)))
            lens.append(A.e_bin("&", A.e_id("p"), A.e_lit(3)))
        fields = [A.field("k", u8), A.field("", inner, anon=True)] + ([A.field("", second, anon=True)] if two else []) + \
                 [A.field("d", A.t_arr(elem, A.L_expr(rnd.choice(lens)))), A.field("e", A.t_arr(u8, A.L_expr(rnd.choice(lens)))), A.field("t", u8)]
        if rnd.random() < 0.3:
            fields = fields[1:]
            lens = [l for l in lens if not A.expr_refs(l, {"k"})]
            fields[-3] = A.field("d", A.t_arr(elem, A.L_expr(rnd.choice(lens))))
            fields[-2] = A.field("e", A.t_arr(u8, A.L_expr(rnd.choice(lens))))
        t = A.t_struct("AN", fields)
        # constants of the same names: the (folded) fields win (finding F43)
        consts = {"n": rnd.randrange(0, 4), "m": rnd.choice([0, 1, 5]), "q": 2} if rnd.random() < 0.5 else {}
        scn = {"type": t, "mode": mode, "consts": consts, "defs": A.render(t, consts)}
        start = codec.start_for(rnd, scn)
        out.append(codec.parse_record(first_id + len(out), scn, codec.gen_input(rnd, start, maxlen=40), start, rnd.random() < 0.5, both=True))
    return out


def c07_extra(rep, rnd, first_id):
    """Wrong element count in a fixed-size non-character array must be refused (value scenarios)."""
    from harness import absyn as A

    n = 4000 if rep.tier == "thorough" else 250
    out = []
    while len(out) < n:
        scn = codec.gen_scenario(rnd, {"union": False, "eof": False, "w": (0.2, 0.25, 0.85, 0.9, 0.92)}, top_union=0)
        t, mode = scn["type"], scn["mode"]
        try:
            v = A.gen_value(rnd, t, mode, scn["consts"])
        except Exception:  # noqa: BLE001
            continue
        idx = [i for i, f in enumerate(t["fields"]) if f["type"]["k"] == "arr" and f["type"]["len"]["k"] == "fixed"
               and f["type"]["elem"]["k"] not in ("char", "wchar") and A.static_size(f["type"], mode) is not None]
        if not idx:
            continue
        i = rnd.choice(idx)
        items = list(v["vals"][i]["items"])
        if items and rnd.random() < 0.5:
            items = items[:-1]
        else:
            items = items + [A.gen_value(rnd, t["fields"][i]["type"]["elem"], mode, scn["consts"])]
        bad = dict(v, vals=v["vals"][:i] + [dict(v["vals"][i], items=items)] + v["vals"][i + 1:])
        out.append(codec.value_record(first_id + len(out), scn, v, rnd.random() < 0.5))
        out.append(codec.value_record(first_id + len(out), scn, bad, rnd.random() < 0.5, tag="wrong-count"))
    # identifier resolution: a field named like a constant takes precedence in a later length expression
    for _ in range(400 if rep.tier == "thorough" else 60):
        mode = codec.gen_mode(rnd)
        kval = rnd.randrange(0, 4)
        elem = rnd.choice([A.t_int("uint8"), A.t_int("uint16"), A.t_char(), A.t_int("int24"), A.t_wchar()])
        e = rnd.choice([A.e_id("K"), A.e_bin("+", A.e_bin("&", A.e_id("K"), A.e_lit(3)), A.e_lit(1)), A.e_bin("*", A.e_id("J"), A.e_bin("&", A.e_id("K"), A.e_lit(1)))])
        fields = [A.field("K", A.t_int("uint8")), A.field("d", A.t_arr(elem, A.L_expr(A.e_bin("&", e, A.e_lit(7))))), A.field("t", A.t_int("uint8"))]
        t = A.t_struct("SH", fields)
        consts = {"K": kval, "J": 2}
        scn = {"type": t, "mode": mode, "consts": consts, "defs": A.render(t, consts)}
        start = codec.start_for(rnd, scn)
        out.append(codec.parse_record(first_id + len(out), scn, codec.gen_input(rnd, start, maxlen=40), start, rnd.random() < 0.5, both=True))
    out += anon_context_family(rnd, first_id + len(out), 400 if rep.tier == "thorough" else 60)
    # two structures declare, in place, an element structure with the SAME tag and different layouts, and an array of it with the
    # same length form: each array holds elements of its own element type (nothing may be shared by name)
    u8 = A.t_int("uint8")
    for _ in range(200 if rep.tier == "thorough" else 30):
        mode = codec.gen_mode(rnd)
        lay = [[A.field("a", u8)], [A.field("a", A.t_int("uint16")), A.field("b", A.t_int("uint16"))], [A.field("p", A.t_int("uint32"))],
               [A.field("c", A.t_arr(A.t_char(), A.L_fixed(3)))]]
        la, lb = rnd.sample(lay, 2)
        ln = rnd.choice([A.L_fixed(2), A.L_fixed(3), A.L_NULL if False else A.L_fixed(1)])
        first = A.t_struct("same_a", [A.field("e", A.t_arr(A.t_struct("entry", la), ln)), A.field("t", u8)])
        first["fields"][0]["inline"] = "tag"
        second = A.t_struct("same_b", [A.field("h", u8), A.field("e", A.t_arr(A.t_struct("entry", lb), ln)), A.field("t", u8)])
        second["fields"][1]["inline"] = "tag"
        holder = A.t_struct("same_h", [A.field("x", first), A.field("y", second)])
        scn = {"type": holder, "mode": mode, "consts": {}, "defs": A.render(holder, {})}
        start = codec.start_for(rnd, scn)
        out.append(codec.parse_record(first_id + len(out), scn, codec.gen_input(rnd, start, maxlen=60), start, rnd.random() < 0.5, both=True))
    # x[EOF] takes everything that is left: whatever follows it finds the end of the input - also when the last element is partial
    # (the array itself may then raise or not, but no later member may be made of the left-over bytes)
    u8 = A.t_int("uint8")
    pair = A.t_struct("ep", [A.field("a", u8), A.field("b", A.t_int("uint16"))])
    e24 = A.t_enum("EE", "uint24", [("A", 1), ("B", 2)])
    for _ in range(300 if rep.tier == "thorough" else 50):
        mode = codec.gen_mode(rnd)
        elem = rnd.choice([A.t_int("uint24"), A.t_int("int48"), pair, e24, A.t_arr(u8, A.L_fixed(3)), A.t_int("uint16"), A.t_int("int128"), A.t_wchar()])
        inner = A.t_struct("eo", [A.field("h", u8), A.field("x", A.t_arr(elem, A.L_EOF))])
        t = A.t_struct("EOFT", [A.field("i", inner), A.field("tail", u8), A.field("more", A.t_int("uint16"))])
        scn = {"type": t, "mode": dict(mode, align=False), "consts": {}, "defs": A.render(t, {})}
        start = codec.start_for(rnd, scn)
        data = bytes(rnd.randrange(256) for _ in range(start)) + bytes(rnd.randrange(1, 256) for _ in range(rnd.randrange(0, 24)))
        out.append(codec.parse_record(first_id + len(out), scn, data, start, rnd.random() < 0.5, both=True))
    # the elements of a to-end-of-stream / null-terminated / counted array are themselves arrays whose length names an earlier field
    # (or a constant that a field shadows): the inner length is evaluated over the fields parsed so far for EVERY element (seed S94)
    for _ in range(200 if rep.tier == "thorough" else 40):
        mode = dict(codec.gen_mode(rnd), align=False)
        elem = rnd.choice([u8, A.t_int("uint16"), A.t_int("uint24"), A.t_char()])
        outer = rnd.choice([A.L_EOF, A.L_EOF, A.L_fixed(2), A.L_expr({"k": "id", "name": "cnt"})])
        consts = {"width": 2} if rnd.random() < 0.4 else {}
        inner = A.t_arr(elem, A.L_expr({"k": "id", "name": "width"}))
        t = A.t_struct("ROWS", [A.field("cnt", u8), A.field("width", u8), A.field("rows", A.t_arr(inner, outer))])
        scn = {"type": t, "mode": mode, "consts": consts, "defs": A.render(t, consts)}
        w = rnd.choice([0, 1, 3, 3])
        body = bytes([rnd.choice([0, 1, 2]), w]) + bytes(rnd.randrange(1, 256) for _ in range(w * A.size_hint(elem) * rnd.randrange(0, 4) if hasattr(A, "size_hint") else w * 6))
        start = rnd.choice([0, 0, 4])
        out.append(codec.parse_record(first_id + len(out), scn, bytes(start) + body, start, rnd.random() < 0.5, both=True))
    return out


CHECKS["C07"] = CodecCheck(
    "C07", {"value", "pos", "status", "dump", "reparse", "reject", "sizes", "load", "equiv"},
    rule="array-heavy random definitions: element kinds (every scalar, enum, flag, struct, nested array, LEB128, pointer) x the four "
         "length forms (fixed, expression over earlier fields / constants / sizeof, null-terminated, to end of stream) x both "
         "readers, multi-dimensional arrays, negative and zero expression values; values with a wrong element count in a "
         "fixed-size array must be refused; non-trivial = parse ok with at least one array member",
    quick_n=1500, thorough_n=40000, cfg={"w": (0.2, 0.25, 0.85, 0.9, 0.92)}, both=True, extra=c07_extra, assumptions=DOMAIN,
    nontrivial=lambda r: "[" in r["defs"] and (r["kind"] == "value" or r["obs"]["res"]["status"] == "ok"))


# ---------------------------------------------------------------------------------------------------- C08
def c08_extra(rep, rnd, first_id):
    from harness import absyn as A

    n = 1500 if rep.tier == "thorough" else 90
    out = []
    # the bounded universe, both readers, every cut (the small fixed shapes: a lone char[2], a bit-field run, ...)
    ucases = A.universe(1) + (A.universe(2) if rep.tier == "thorough" else rnd.sample(A.universe(2), 60))
    if rep.tier != "thorough":
        ucases = rnd.sample(A.universe(1), 110) + ucases[-60:]
    for c in ucases:
        consts = {k: v for k, v in c["consts"].items() if k != "_"}
        scn = {"type": c["type"], "mode": c["mode"], "consts": consts, "defs": A.render(c["type"], consts)}
        start = codec.start_for(rnd, scn)
        data = bytes(rnd.randrange(256) for _ in range(start)) + bytes(range(1, 41))
        for compiled in (True, False):
            out += codec.cut_and_fault_records(first_id + len(out), scn, data, start, compiled, rnd, max_cuts=48, max_faults=6)
    # arrays of every element kind with a fixed and with a field-given count, cut at EVERY byte - in particular inside the last
    # element (seed S95: a bulk reader that counts a partial trailing chunk as an element)
    u8 = A.t_int("uint8")
    e24 = A.t_enum("EC", "uint24", [("A", 1), ("B", 2)])
    kinds = [A.t_int("uint24"), A.t_int("int48"), A.t_int("int128"), e24, A.t_int("uint16"), A.t_int("uint32"), A.t_float("float"), A.t_wchar(),
             A.t_ptr(u8), A.t_struct("cp", [A.field("a", u8), A.field("b", A.t_int("uint24"))])]
    for elem in (kinds if rep.tier == "thorough" else rnd.sample(kinds, 5)):
        for ln in (A.L_fixed(3), A.L_expr({"k": "id", "name": "n"})):
            t = A.t_struct("CUTA", [A.field("n", u8), A.field("x", A.t_arr(elem, ln)), A.field("tail", u8)])
            mode = {"endian": rnd.choice("<>"), "align": False, "ptr": 4}
            scn = {"type": t, "mode": mode, "consts": {}, "defs": A.render(t, {})}
            start = rnd.choice([0, 3])
            data = bytes(rnd.randrange(256) for _ in range(start)) + bytes([2]) + bytes(rnd.randrange(1, 256) for _ in range(60))
            for compiled in (True, False):
                out += codec.cut_and_fault_records(first_id + len(out), scn, data, start, compiled, rnd, max_cuts=80, max_faults=4)
    # `EOF` is only the to-end-of-stream sentinel while nothing else is called EOF: behind a FIELD of that name `data[EOF]` is an
    # ordinary counted array, and a premature end inside it is an error like everywhere else (seed S146)
    for elem in ([A.t_char(), A.t_int("uint16"), A.t_int("uint24")] if rep.tier == "thorough" else [A.t_char(), A.t_int("uint16")]):
        t = A.t_struct("EOFN", [A.field("EOF", u8), A.field("data", A.t_arr(elem, A.L_expr({"k": "id", "name": "EOF"}))), A.field("t", u8)])
        mode = {"endian": rnd.choice("<>"), "align": False, "ptr": 4}
        scn = {"type": t, "mode": mode, "consts": {}, "defs": A.render(t, {})}
        data = bytes([3]) + bytes(rnd.randrange(1, 256) for _ in range(20))
        for compiled in (True, False):
            out += codec.cut_and_fault_records(first_id + len(out), scn, data, 0, compiled, rnd, max_cuts=30, max_faults=12)
    # a length field holding an absurd number (corrupted input): the input ends long before - EOFError like for any other
    # premature end, whatever the stream object does when asked for 2^63 bytes (finding F67)
    for elem in [A.t_char(), A.t_int("uint32"), A.t_wchar(), A.t_int("uint24"), A.t_float("double")]:
        for nbytes in (b"\xff" * 8, bytes(7) + b"\x80", b"\x00\x00\x00\x00\x01\x00\x00\x00", bytes(3) + b"\x01" + bytes(4)):
            t = A.t_struct("HUGE", [A.field("n", A.t_int("uint64")), A.field("d", A.t_arr(elem, A.L_expr({"k": "id", "name": "n"}))), A.field("t", u8)])
            mode = {"endian": "<", "align": False, "ptr": 8}
            scn = {"type": t, "mode": mode, "consts": {}, "defs": A.render(t, {})}
            data = nbytes + bytes(rnd.randrange(1, 256) for _ in range(rnd.choice([0, 4, 13])))
            out.append(codec.parse_record(first_id + len(out), scn, data, 0, rnd.random() < 0.5, both=True))
            out[-1]["tag"] = "cut-huge-length"
    # null-terminated arrays: a cut inside the terminator, or inside an element one of whose bytes is zero, is still a cut
    # (seed S124: a terminator test that takes any all-zero remainder for the terminator)
    for elem in ([A.t_wchar(), A.t_int("uint16"), A.t_int("uint24"), A.t_int("uint32")] if rep.tier == "thorough" else [A.t_wchar(), rnd.choice([A.t_int("uint16"), A.t_int("uint24")])]):
        for endian in "<>":
            t = A.t_struct("CUTZ", [A.field("h", u8), A.field("x", A.t_arr(elem, A.L_NULL)), A.field("tail", u8)])
            mode = {"endian": endian, "align": False, "ptr": 4}
            scn = {"type": t, "mode": mode, "consts": {}, "defs": A.render(t, {})}
            esz = 2 if elem["k"] == "wchar" else elem["size"]
            units = [bytes([0x41 + i] + [0] * (esz - 1)) for i in range(3)] + [bytes([0] * (esz - 1) + [0x42])]     # zero bytes on either side
            data = bytes([7]) + b"".join(units) + bytes(esz) + bytes([9, 9])
            for compiled in (True, False):
                out += codec.cut_and_fault_records(first_id + len(out), scn, data, 0, compiled, rnd, max_cuts=40, max_faults=12)
    # a dynamically sized union re-reads its bytes after its members were parsed; that read can come up short like any other
    # (seed S67) - every read call of the clean run is faulted, with data following the union
    for _ in range(12 if rep.tier == "thorough" else 3):
        first = rnd.choice([A.field("len", u8), A.field("len", A.t_int("uint16"))])
        second = A.field("data", A.t_arr(rnd.choice([A.t_char(), u8, A.t_int("uint24")]), A.L_expr({"k": "id", "name": "len"})))
        du = A.t_struct("du", [first, second] + ([A.field("z", A.t_leb(False))] if rnd.random() < 0.4 else []), union=True)
        t = A.t_struct("DUH", [A.field("pre", u8), A.field("u", du), A.field("tail", A.t_int("uint16")), A.field("more", A.t_arr(u8, A.L_fixed(3)))])
        mode = {"endian": "<", "align": False, "ptr": 4}
        scn = {"type": t, "mode": mode, "consts": {}, "defs": A.render(t, {})}
        start = rnd.choice([0, 5])
        data = bytes(rnd.randrange(256) for _ in range(start)) + bytes([7, rnd.choice([2, 3, 4]), 0]) + bytes(rnd.randrange(1, 256) for _ in range(40))
        for compiled in (True, False):
            out += codec.cut_and_fault_records(first_id + len(out), scn, data, start, compiled, rnd, max_cuts=30, max_faults=80)
    for _ in range(n):
        scn = codec.gen_scenario(rnd)
        start = codec.start_for(rnd, scn)
        data = codec.gen_input(rnd, start, maxlen=70)
        out += codec.cut_and_fault_records(first_id + len(out), scn, data, start, rnd.random() < 0.5, rnd,
                                           max_cuts=200 if rep.tier == "thorough" else 48,
                                           max_faults=60 if rep.tier == "thorough" else 16)
    return out


CHECKS["C08"] = CodecCheck(
    "C08", {"status", "value", "fabricated", "fault-status", "load"},
    rule="for every random scenario: EVERY cut point of the input (data[:k], sampled above 48/200 cuts), every single stream fault "
         "of the clean run (k-th read call delivers 1, 2 or all bytes fewer, or raises) through a faulty stream object, both "
         "readers, and clean parses after failed ones (no residue); non-trivial = a cut or fault record whose outcome was judged",
    quick_n=300, thorough_n=8000, extra=c08_extra, assumptions=DOMAIN + [
        "to-end-of-stream arrays are exempt under stream faults (the end-of-stream probe is what the fault hits)"],
    mc_models=("MC_Codec", "MC_Cuts"), nontrivial=lambda r: "obs" in r and r.get("tag", "").startswith(("cut", "fault", "after")))


from harness.checks_scalar import ScalarCheck  # noqa: E402

CHECKS["C05"] = ScalarCheck()


from harness.checks_expr import ExprCheck  # noqa: E402

CHECKS["C10"] = ExprCheck()


from harness.checks_union import UnionCheck  # noqa: E402

CHECKS["C11"] = UnionCheck()


from harness.checks_enum import EnumCheck  # noqa: E402

CHECKS["C12"] = EnumCheck()


from harness.checks_ptr import PtrCheck  # noqa: E402

CHECKS["C16"] = PtrCheck()


from harness.checks_session import SessionCheck  # noqa: E402

CHECKS["C14"] = SessionCheck("C14")
CHECKS["C17"] = SessionCheck("C17")


from harness.checks_incremental import IncrementalCheck  # noqa: E402

CHECKS["C18"] = IncrementalCheck()
CHECKS["C04"].mc_models = ("MC_Codec", "MC_Layout")
CHECKS["C03"].mc_models = ("MC_Codec", "MC_Plan")
CHECKS["C06"].mc_models = ("MC_Codec", "MC_Bits", "MC_Layout", "MC_Writer")
CHECKS["C02"].mc_models = ("MC_Codec", "MC_Writer")
CHECKS["C09"].mc_models = ("MC_Codec", "MC_Reader")
CHECKS["C01"].mc_models = ("MC_Codec", "MC_Writer")


from harness.checks_threads import ThreadsCheck  # noqa: E402

CHECKS["C15"] = ThreadsCheck()


from harness.checks_parser import ParserCheck  # noqa: E402

CHECKS["C13"] = ParserCheck()


from harness.checks_utils import UtilsCheck  # noqa: E402

CHECKS["C19"] = UtilsCheck()


from harness.checks_stub import StubCheck  # noqa: E402

CHECKS["C20"] = StubCheck()
