"""Check framework: tiers, evidence, known findings, replays, exit codes.

Exit codes of ./check: 0 = property held on everything explored (known findings are listed, not alarms),
1 = VIOLATION line(s) printed, 2 = machinery failure (never a verdict).
"""
from __future__ import annotations

import hashlib
import json
import os
import sys
import time
import traceback

VERIF = os.path.dirname(os.path.dirname(os.path.abspath(__file__)))
EVIDENCE_DIR = os.path.join(VERIF, "evidence")
REPLAY_DIR = os.path.join(VERIF, "replays")
if os.environ.get("VERIF_REPO"):
    # not /repo but a scratch copy (a seeded change being tried): its evidence and replays stay with the scratch copy
    EVIDENCE_DIR = os.path.join(os.environ["VERIF_REPO"], ".verif", "evidence")
    REPLAY_DIR = os.path.join(os.environ["VERIF_REPO"], ".verif", "replays")
KNOWN_FILE = os.path.join(VERIF, "known_findings.json")


class MachineryError(RuntimeError):
    pass


def load_known():
    with open(KNOWN_FILE) as fh:
        return json.load(fh)["findings"]


class Report:
    """Collects what one check run explored and found."""

    def __init__(self, prop, tier, seed):
        self.prop, self.tier, self.seed = prop, tier, seed
        self.t0 = time.time()
        self.states = 0
        self.transitions = 0
        self.traces = 0
        self.evaluations = 0
        self.nontrivial = set()
        self.samples = []
        self.exclusions = {}
        self.violations = []          # (summary, replay dict)
        self.known_hits = {}          # finding id -> [count, example]
        self.mc_runs = []
        self.notes = []
        self.assumptions = []
        self.extra = {}
        self.rule = ""
        self.known = {f["id"]: f for f in load_known() if f["status"] == "open"}

    # ---- model checking part
    def add_mc(self, name, res, expect_violation=False):
        """Record a TLC model-checking run (res: tlc.TLCResult)."""
        if res.error:
            raise MachineryError(f"TLC failed on {name}: {res.error}\n{res.out[-1500:]}")
        self.states += res.distinct
        self.transitions += res.generated
        self.mc_runs.append({"model": name, "distinct_states": res.distinct, "states_generated": res.generated,
                             "wall_s": round(res.wall, 1), "violated": res.violated})
        if bool(res.violated) != expect_violation:
            if res.violated:
                self.violation(f"specification model {name}: TLC reports {res.violated} violated (the design itself admits a bad state)",
                               {"kind": "mc", "model": name, "tlc_output_tail": res.out[-4000:]})
            else:
                raise MachineryError(f"{name}: expected TLC to find a counter-example (negative control) but it did not")

    # ---- trace part
    def count(self, key, n=1):
        self.exclusions[key] = self.exclusions.get(key, 0) + n

    def nontrivial_case(self, obj):
        self.nontrivial.add(hashlib.sha1(json.dumps(obj, sort_keys=True).encode()).hexdigest())

    def sample(self, obj, limit=3):
        if len(self.samples) < limit:
            self.samples.append(obj)

    def violation(self, summary, replay):
        self.violations.append((summary, replay))

    def known_hit(self, fid, example):
        if fid not in self.known:
            # a finding that is not listed (or listed as fixed) is a violation like any other
            self.violation(f"matches finding {fid}, which is not listed as open in known_findings.json: {example}",
                           {"kind": "finding-not-listed", "finding": fid, "example": example})
            return
        h = self.known_hits.setdefault(fid, [0, example])
        h[0] += 1

    # ---- finish
    def finish(self):
        wall = round(time.time() - self.t0, 2)
        os.makedirs(EVIDENCE_DIR, exist_ok=True)
        lines = []
        for fid, (n, ex) in sorted(self.known_hits.items()):
            f = self.known[fid]
            lines.append(f"KNOWN-FINDING: property={self.prop} {fid} {f['symptom']} [{n} scenario(s) this run, e.g. {ex}]")
        paths = []
        if self.violations:
            d = os.path.join(REPLAY_DIR, self.prop)
            os.makedirs(d, exist_ok=True)
            for i, (summary, replay) in enumerate(self.violations[:20]):
                p = os.path.join(d, f"{self.tier}_{self.seed}_{i}.json")
                with open(p, "w") as fh:
                    json.dump({"property": self.prop, "summary": summary, "replay": replay}, fh, indent=1)
                paths.append((summary, p))
        ev = {
            "property_id": self.prop, "tier": self.tier, "seed": self.seed, "level": "model_checking",
            "coverage": {
                "states": self.states, "transitions": self.transitions,
                "traces_validated_against_impl": self.traces,
                "samples": self.samples or [{"note": "no implementation traces in this run"}],
                "evaluations": self.evaluations, "distinct_nontrivial": len(self.nontrivial), "rule": self.rule,
                "exhaustive": False, "mc_runs": self.mc_runs, "domain_exclusions": self.exclusions,
                "known_findings_matched": {k: v[0] for k, v in self.known_hits.items()},
                **self.extra,
            },
            "assumptions": self.assumptions, "wall_s": wall, "violations": len(self.violations),
        }
        with open(os.path.join(EVIDENCE_DIR, f"{self.prop}.json"), "w") as fh:
            json.dump(ev, fh, indent=1)
        for l in lines:
            print(l)
        for n in self.notes:
            print("NOTE:", n)
        print(f"[{self.prop} {self.tier}] states={self.states} transitions={self.transitions} traces={self.traces} "
              f"nontrivial={len(self.nontrivial)} violations={len(self.violations)} known={sum(v[0] for v in self.known_hits.values())} wall={wall}s")
        for summary, p in paths:
            print(f"VIOLATION property={self.prop} replay={p}")
            print(f"  {summary}")
        return 1 if self.violations else 0


def tlc_error():
    from harness.tlc import TLCError

    return TLCError


def main(checks):
    import argparse

    ap = argparse.ArgumentParser()
    ap.add_argument("prop")
    ap.add_argument("--tier", default=os.environ.get("VERIF_TIER", "quick"), choices=["quick", "thorough"])
    ap.add_argument("--seed", type=int, default=int(os.environ.get("VERIF_SEED", "20261001")))
    ap.add_argument("--replay")
    a = ap.parse_args()
    if a.prop not in checks:
        print(f"unknown property {a.prop}; known: {sorted(checks)}")
        return 2
    # The library under test runs inside this process.  A defect in it (say an array length read from the wrong place) can ask for
    # unbounded memory; the limit turns that into a MemoryError of the observed call - an observation - instead of taking the
    # machine down.  TLC runs in child processes that lift the limit again.
    import resource

    lim = int(os.environ.get("VERIF_HARNESS_MEM_GB", "12")) << 30
    hard = resource.getrlimit(resource.RLIMIT_AS)[1]
    resource.setrlimit(resource.RLIMIT_AS, (lim if hard == resource.RLIM_INFINITY else min(lim, hard), hard))
    try:
        if a.replay:
            return checks[a.prop].replay(a.replay)
        rep = Report(a.prop, a.tier, a.seed)
        checks[a.prop].run(rep)
        return rep.finish()
    except (MachineryError, tlc_error()) as e:
        print(f"MACHINERY-FAILURE property={a.prop}: {e}")
        return 2
    except Exception:  # noqa: BLE001
        traceback.print_exc()
        print(f"MACHINERY-FAILURE property={a.prop}: unexpected exception in the harness")
        return 2
