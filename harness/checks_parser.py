"""C13: definition parsing is insensitive to comments, spacing and order; aliases resolve to one object.
E1 = MC_TypeTable; E3 = renderings of abstract declaration lists (fillers x insertion points x orders x load() splits)
loaded into the real library and judged by Trace_Parser."""
from __future__ import annotations

import os
import random
import re

from harness import absyn as A
from harness import codec, tlc
from harness.checks_codec import run_mc
from harness.framework import MachineryError

FILLERS = [" ", "\t", "\n", "\r\n", "/* c */", "/* a\n b */", "// c\n", "  \n  ", "/**/", "// c\r\n", "/* a\r\n b */"]


# ------------------------------------------------------------------------------------------ canonical abstract types
def canon(t, anon=False, top=True):
    k = t["k"]
    if k == "int":
        return {"k": "int", "name": t["name"], "size": t["size"], "signed": t["signed"], "align": t["align"]}
    if k == "float":
        return {"k": "float", "size": t["size"]}
    if k in ("char", "wchar", "void"):
        return {"k": k}
    if k == "leb":
        return {"k": "leb", "signed": t["signed"]}
    if k == "enum":
        return {"k": "enum", "name": t["name"], "flag": t["flag"], "base": canon(t["base"]),
                "members": [[m["name"], A.unpint(m["value"])] for m in t["members"]]}
    if k == "ptr":
        if "selfname" in t:
            return {"k": "ptr", "target": {"k": "ref", "name": t["selfname"]}}
        tg = t["target"]
        if tg["k"] in ("struct", "union") and not tg.get("_anon") and not anon:
            return {"k": "ptr", "target": {"k": "ref", "name": tg["name"]}}
        return {"k": "ptr", "target": canon(tg, anon=anon, top=False)}
    if k == "arr":
        ln = t["len"]
        if ln["k"] == "fixed":
            l2 = {"k": "fixed", "n": ln["n"]}
        elif ln["k"] == "expr":
            l2 = {"k": "expr", "text": A.render_expr(ln["e"]).replace(" ", "")}
        else:
            l2 = {"k": ln["k"]}
        return {"k": "arr", "elem": canon(t["elem"], anon=anon, top=False), "len": l2}
    if k in ("struct", "union"):
        return {"k": k, "name": "" if anon else t["name"],
                "fields": [{"name": "" if f.get("anon") else f["name"], "type": canon(f["type"], anon=bool(f.get("anon") or f.get("inline") is True), top=False),
                            "bits": f["bits"], "anon": bool(f.get("anon"))} for f in t["fields"]]}
    raise ValueError(k)


def abstract_of(T, cs, anon=False):
    """Project a real type class onto the canonical abstract form."""
    from dissect.cstruct.types import (LEB128, BaseArray, Char, Enum, Flag, Int, Packed, Pointer, Structure, Union, Void, Wchar)
    from dissect.cstruct.expression import Expression

    if isinstance(T, type) and issubclass(T, (Enum, Flag)):
        return {"k": "enum", "name": T.__name__, "flag": issubclass(T, Flag), "base": abstract_of(T.type, cs),
                "members": [[n, int(m.value)] for n, m in T.__members__.items()]}
    if issubclass(T, Pointer):
        tg = T.type
        if issubclass(tg, Structure) and not tg.__anonymous__:
            return {"k": "ptr", "target": {"k": "ref", "name": tg.__name__}}
        return {"k": "ptr", "target": abstract_of(tg, cs)}
    if issubclass(T, BaseArray):
        n = T.num_entries
        if T.null_terminated:
            ln = {"k": "null"}
        elif isinstance(n, Expression):
            ln = {"k": "eof"} if n.expression.strip() == "EOF" else {"k": "expr", "text": n.expression.replace(" ", "")}
        else:
            ln = {"k": "fixed", "n": int(n)}
        return {"k": "arr", "elem": abstract_of(T.type, cs), "len": ln}
    if issubclass(T, Structure):
        return {"k": "union" if issubclass(T, Union) else "struct", "name": "" if (anon or T.__anonymous__) else T.__name__,
                "fields": [{"name": f.name or "", "type": abstract_of(f.type, cs, anon=f.name is None), "bits": f.bits or 0, "anon": f.name is None}
                           for f in T.__fields__]}
    if issubclass(T, Packed):
        if issubclass(T, float):
            return {"k": "float", "size": T.size}
        return {"k": "int", "name": T.__name__, "size": T.size, "signed": T.packchar.islower(), "align": T.alignment}
    if issubclass(T, Int):
        return {"k": "int", "name": T.__name__, "size": T.size, "signed": bool(T.signed), "align": T.alignment}
    if issubclass(T, LEB128):
        return {"k": "leb", "signed": bool(T.signed)}
    if issubclass(T, Char):
        return {"k": "char"}
    if issubclass(T, Wchar):
        return {"k": "wchar"}
    if issubclass(T, Void):
        return {"k": "void"}
    return {"k": "unknown", "name": getattr(T, "__name__", "?")}


# ------------------------------------------------------------------------------------------ declaration lists
def decl_text(d):
    return d["text"]


def make_decls(rnd, typedecl=True):
    """A random list of top-level declarations with their dependencies, as (abstract decl for the spec, text, deps)."""
    mode = {"endian": "<", "align": rnd.random() < 0.5, "ptr": 8}
    g = A.Gen(rnd, mode, {"depth": 1, "max_fields": 4, "consts": False, "expr": True})
    decls = []
    names_used = set()
    ntypes = rnd.randrange(1, 4)
    for i in range(ntypes):
        while True:
            t = g.struct(union=rnd.random() < 0.2)
            if not A.has_dup_names(t):
                break
        r = A.Renderer()
        r.ensure(t)
        for name, text in r.defs:            # enums and nested named structs come first (dependency order)
            if name in names_used:
                continue
            names_used.add(name)
            sub = find_named(t, name)
            extra = []
            if sub["k"] in ("struct", "union") and rnd.random() < 0.5:
                extra = [f"{name}_t", f"P{name}"][: rnd.randrange(1, 3)]
                form = rnd.random()
                kw = "union" if sub["k"] == "union" else "struct"
                head = f"{kw} {name} {{"
                if form < 0.5 or not text.startswith(head):
                    # typedef struct X {...} X, alias1, alias2;
                    text = "typedef " + text[:-1] + " " + ", ".join([name] + extra) + ";"
                elif form < 0.75:
                    # struct X {...} alias1, alias2;      (names after the body without typedef)
                    text = text[:-1] + " " + ", ".join(extra) + ";"
                elif re.search(rf"\b{name}\b", text[len(head):]) is None:
                    # typedef struct {...} X, alias1;     (the anonymous structure takes its first name)
                    text = f"typedef {kw} {{" + text[len(head):-1] + " " + ", ".join([name] + extra) + ";"
                else:
                    extra = []
            kw = "union" if sub["k"] == "union" else "struct"
            head = f"{kw} {name} {{"
            if typedecl and not extra and sub["k"] in ("struct", "union") and text.startswith(head) and rnd.random() < 0.25:
                # typedef struct [X] {...} *PX;   /   typedef struct [X] {...} AX[n];     (finding F56: the declarator is not the
                # structure's name; without a tag the structure stays anonymous)
                selfref = re.search(rf"\b{name}\b", text[len(head):]) is not None
                last = (name, text) == r.defs[-1]            # nothing else refers to the top-level structure by name
                anon = last and not selfref and rnd.random() < 0.5
                ptr = rnd.random() < 0.6
                alias = ("P" if ptr else "A") + name
                n = rnd.randrange(1, 4)
                body = (f"typedef {kw} {{" if anon else f"typedef {head}") + text[len(head):-1]
                text = body + (f" *{alias};" if ptr else f" {alias}[{n}];")
                ct = canon(sub)
                if anon:
                    ct["name"] = ""
                decls.append({"kind": "typedecl", "names": [] if anon else [name], "type": ct, "alias": alias, "ptr": ptr, "n": 0 if ptr else n,
                              "text": text, "deps": deps_of(sub) - {name}, "key": alias if anon else name})
                continue
            decls.append({"kind": "type", "names": [name] + extra, "type": canon(sub), "text": text,
                          "deps": deps_of(sub) - {name}, "key": name})
    if rnd.random() < 0.5:
        # an enumeration over a base type whose name has several words (white space and comments may separate them)
        base = rnd.choice(list(A.SPELLINGS))
        e = A.t_enum(f"EM{len(decls)}", base, [("P", 1), ("Q", 2), ("R", 5)], flag=rnd.random() < 0.4 and not A.INTS[base][1])
        e["spelling"] = A.SPELLINGS[base]
        r = A.Renderer()
        r.ensure(e)
        decls.append({"kind": "type", "names": [e["name"]], "type": canon(e), "text": r.defs[0][1], "deps": set(), "key": e["name"]})
    # typedef aliases: of built-in names, of user types, chains, arrays and pointers of them
    pool = ["uint8", "uint32", "WORD", "unsigned long", "wchar_t", "int64_t"] + [d["key"] for d in decls]
    for i in range(rnd.randrange(1, 5)):
        target = rnd.choice(pool)
        alias = f"al{i}"
        style = rnd.random()
        if style < 0.6:
            decls.append({"kind": "alias", "names": [alias], "target": target, "text": f"typedef {target} {alias};", "deps": {target}, "key": alias})
        elif style < 0.8:
            n = rnd.randrange(1, 5)
            decls.append({"kind": "aliasarr", "names": [alias], "target": target, "n": n, "text": f"typedef {target} {alias}[{n}];", "deps": {target}, "key": alias})
        else:
            decls.append({"kind": "aliasptr", "names": [alias], "target": target, "text": f"typedef {target} *{alias};", "deps": {target}, "key": alias})
        pool.append(alias)
    # constants (line oriented)
    consts = {}
    for i in range(rnd.randrange(0, 3)):
        consts[f"C{i}"] = rnd.randrange(0, 100)
        decls.append({"kind": "define", "name": f"C{i}", "value": consts[f"C{i}"], "text": f"#define C{i} {consts[f'C{i}']}\n", "deps": set(), "key": f"C{i}"})
    return decls, consts, mode


def find_named(t, name):
    if t["k"] in ("struct", "union", "enum") and t.get("name") == name:
        return t
    if t["k"] in ("struct", "union"):
        for f in t["fields"]:
            r = find_named(f["type"], name)
            if r:
                return r
    if t["k"] == "arr":
        return find_named(t["elem"], name)
    if t["k"] == "ptr" and "selfname" not in t:
        return find_named(t["target"], name)
    return None


def deps_of(t):
    out = set()
    k = t["k"]
    if k in ("struct", "union"):
        out.add(t["name"])
        for f in t["fields"]:
            ft = f["type"]
            if f.get("anon"):
                for g in ft["fields"]:
                    out |= deps_of(g["type"])
            else:
                out |= deps_of(ft)
    elif k == "enum":
        out.add(t["name"])
    elif k == "arr":
        out |= deps_of(t["elem"])
    elif k == "ptr" and "selfname" not in t:
        out |= deps_of(t["target"])
    return out


def spec_decls(decls, order):
    """Declarations in the chosen order, as Trace_Parser expects them."""
    out = []
    for i in order:
        d = decls[i]
        if d["kind"] == "type":
            out.append({"kind": "type", "names": d["names"], "type": d["type"]})
        elif d["kind"] == "alias":
            out.append({"kind": "alias", "names": d["names"], "target": d["target"]})
        elif d["kind"] in ("aliasarr", "aliasptr"):
            out.append({"kind": d["kind"], "names": d["names"], "target": d["target"], "n": d.get("n", 0)})
        elif d["kind"] == "typedecl":
            out.append({"kind": "typedecl", "names": d["names"], "type": d["type"], "alias": d["alias"], "ptr": d["ptr"], "n": d["n"]})
    return out


def topo_order(decls, rnd):
    """A random dependency-respecting order."""
    keys = {}
    for i, d in enumerate(decls):
        for n in (d.get("names") or [d["key"]]):
            keys[n] = i
    left = set(range(len(decls)))
    order = []
    while left:
        ready = [i for i in left if all(keys.get(dep, -1) not in left or keys.get(dep) == i for dep in decls[i]["deps"])]
        if not ready:
            ready = sorted(left)[:1]
        i = rnd.choice(ready)
        order.append(i)
        left.discard(i)
    return order


# ------------------------------------------------------------------------------------------ rendering with fillers
TOKEN = re.compile(r"#define[^\n]*\n|\[[^\]]*\]|[A-Za-z_][A-Za-z0-9_]*|0[xXbB][0-9a-fA-F]+|\d+|<<|>>|[{};,:*=()+\-|&^~/%]|\s+")


def tokenize(text):
    toks = [m.group(0) for m in TOKEN.finditer(text) if not m.group(0).isspace()]
    if "".join(toks).replace(" ", "") != re.sub(r"\s+", "", text).replace(" ", ""):
        # keep whitespace that lives inside a token (unsigned long, #define lines) in the comparison
        a = re.sub(r"\s+", "", "".join(toks))
        b = re.sub(r"\s+", "", text)
        if a != b:
            raise MachineryError(f"tokenizer lost characters of {text!r}")
    return toks


def insertion_points(toks):
    """Indices i such that a filler may be inserted between toks[i] and toks[i+1]; with a tag for the enum-body positions."""
    pts = []
    depth_enum = 0
    in_enum = False
    for i in range(len(toks) - 1):
        a, b = toks[i], toks[i + 1]
        if a in ("enum", "flag"):
            in_enum = True
        if a == "{" and in_enum:
            depth_enum = 1
        if a == "}" and depth_enum:
            depth_enum, in_enum = 0, False
        if a.startswith("#define") or b.startswith("#define"):
            continue                       # #define lines are line oriented
        body = bool(depth_enum) and b != "}" and a != "{"
        risky = body and not (a == "," or b == ",")        # inside "name = value" of an enum member (finding F12 for newlines)
        pts.append((i, "enum-value" if risky else ("enum" if depth_enum else "")))
    return pts


def join(toks, fill=None, tight=False, wordsep=" "):
    """Baseline: tokens separated by one space; fill = {index: filler inserted after token index (in addition)}.
    tight: no whitespace at all except between two word tokens (the text every other rendering is an insertion into)."""
    out = []
    for i, t in enumerate(toks):
        out.append(t)
        if t.startswith("#define"):
            continue
        if i < len(toks) - 1:
            nxt = toks[i + 1]
            sep = "" if nxt.startswith("[") else " "
            if tight and not (re.match(r"\w", nxt[0]) and re.match(r"\w", t[-1])) and not nxt.startswith("#define"):
                sep = ""
            elif tight and not nxt.startswith("#define"):
                sep = wordsep        # two words: something has to separate them - a blank, or a comment (finding F47)
            out.append(sep)
            if fill and i in fill:
                out.append(fill[i] + " ")
    return "".join(out)


# ------------------------------------------------------------------------------------------ observation
def observe_table(texts, mode, names, consts, compiled):
    cs = codec.new_cs(mode)
    try:
        for tx in texts:
            cs.load(tx, compiled=compiled, align=mode["align"])
    except Exception as e:  # noqa: BLE001
        return {"status": "error", "exc": f"{type(e).__name__}: {e}"[:200], "table": [], "same": [], "consts": []}
    table = []
    for n in names:
        try:
            table.append([n, abstract_of(cs.resolve(n), cs)])
        except Exception as e:  # noqa: BLE001
            table.append([n, {"k": "ResolveError"} if type(e).__name__ == "ResolveError" else {"k": "error", "name": type(e).__name__}])
    same = []
    for i, a in enumerate(names):
        for b in names[i + 1:]:
            try:
                same.append([a, b, cs.resolve(a) is cs.resolve(b)])
            except Exception:  # noqa: BLE001
                pass
    return {"status": "ok", "table": table, "same": same[:40],
            "consts": [[k, v] for k, v in sorted(cs.consts.items()) if isinstance(v, int) and k in consts]}


def strip_comments(text):
    """Comments removed (a block comment is a blank, a line comment ends at its line break) - only used to re-render corpus texts."""
    text = re.sub(r"/\*.*?\*/", " ", text, flags=re.S)
    return re.sub(r"//[^\n]*", "", text)


def corpus_texts():
    """Definition texts written by people: the string literals of the repository's tests that look like definitions."""
    import ast
    import glob

    out = []
    for f in sorted(glob.glob(os.path.join(os.environ.get("VERIF_REPO", "/repo"), "tests", "*.py"))):
        try:
            tree = ast.parse(open(f).read())
        except SyntaxError:
            continue
        for node in ast.walk(tree):
            if isinstance(node, ast.Constant) and isinstance(node.value, str):
                v = node.value
                if re.search(r"\b(struct|enum|flag|typedef|union)\b", v) and "{" in v and "\n" in v and "class " not in v and "def " not in v:
                    out.append((os.path.basename(f), v))
    return out


def corpus_record(rid, fname, text, compiled=False):
    from dissect.cstruct import cstruct

    empty = cstruct()
    cs = cstruct()
    rec = {"id": rid, "decls": [], "consts": [], "tag": "corpus", "text": text[:1500], "texts": [text], "mode": {}, "file": fname}
    try:
        cs.load(text, compiled=compiled)
    except Exception as e:  # noqa: BLE001
        rec["obs"] = {"status": "error", "exc": f"{type(e).__name__}: {e}"[:200], "table": [], "same": [], "consts": []}
        return rec
    table = []
    for n in cs.typedefs:
        if n in empty.typedefs:
            continue
        try:
            table.append([n, abstract_of(cs.resolve(n), cs)])
        except Exception as e:  # noqa: BLE001
            table.append([n, {"k": "error", "name": type(e).__name__}])
    rec["obs"] = {"status": "ok", "table": table, "same": [],
                  "consts": [[k, v] for k, v in sorted(cs.consts.items()) if k not in empty.consts and isinstance(v, int) and not isinstance(v, bool)]}
    rec["nonint_consts"] = any(k not in empty.consts and not (isinstance(v, int) and not isinstance(v, bool)) for k, v in cs.consts.items())
    return rec


class ParserCheck:
    prop = "C13"

    def run(self, rep):
        thorough = rep.tier == "thorough"
        rnd = random.Random(rep.seed)
        rep.rule = ("E1: all histories of <= 4 add_type calls over 3 names, 2 types, unknown targets, replace on/off; E3: random "
                    "declaration lists (structs/unions/enums with nested and anonymous members, bit-fields, arrays in all length "
                    "forms, pointers; `typedef struct {..} A, B, C;`; typedef chains over built-in synonyms and user types, typedefs of "
                    "arrays and pointers; #define constants) rendered as: baseline, EVERY single insertion point x a sampled filler "
                    "(space, tab, LF, CRLF, block / multi-line / line comment), random multi-insertions, random dependency-respecting "
                    "orders, random splits into several load() calls, plus add_type / resolve histories through the API (cycles, "
                    "unknown names, re-declarations); non-trivial = distinct rendering whose table was compared")
        run_mc(rep, "MC_TypeTable")
        recs = []
        nsets = 220 if thorough else 22
        for s in range(nsets):
            decls, consts, mode = make_decls(rnd)
            compiled = rnd.random() < 0.5
            base_order = list(range(len(decls)))
            names = [n for d in decls for n in d.get("names", []) + ([d["alias"]] if d["kind"] == "typedecl" else [])]
            cpairs = [[k, v] for k, v in sorted(consts.items())]

            def record(order, texts, tag, extra=None):
                recs.append(dict({"id": len(recs), "decls": spec_decls(decls, order), "consts": cpairs, "tag": tag,
                                  "text": "\n".join(texts)[:1500], "texts": list(texts), "mode": mode,
                                  "obs": observe_table(texts, mode, names, consts, compiled)}, **(extra or {})))

            # baseline, one load
            toks_per_decl = [tokenize(d["text"]) for d in decls]
            record(base_order, ["\n".join(join(toks_per_decl[i]) for i in base_order)], "baseline")
            # the text as a person would write it, and with no optional whitespace at all
            record(base_order, ["\n".join(decls[i]["text"] for i in base_order)], "source")
            record(base_order, ["\n".join(join(toks_per_decl[i], tight=True) for i in base_order)], "tight")
            record(base_order, ["\n".join(join(toks_per_decl[i], tight=True, wordsep="/**/") for i in base_order)], "comment-separated")
            # every single insertion point of every declaration x one filler (thorough: three)
            for di, toks in enumerate(toks_per_decl):
                for (p, where) in insertion_points(toks):
                    for filler in rnd.sample(FILLERS, 3 if thorough else 1):
                        texts = ["\n".join(join(toks_per_decl[i], {p: filler} if i == di else None) for i in base_order)]
                        record(base_order, texts, f"insert@{di}:{p}", {"filler": filler, "where": where})
            # multi-insertions, orders, load splits
            for _ in range(12 if thorough else 4):
                order = topo_order(decls, rnd)
                fills = []
                for toks in toks_per_decl:
                    pts = insertion_points(toks)
                    chosen = rnd.sample(pts, min(len(pts), rnd.randrange(0, 6))) if pts else []
                    fills.append({p: rnd.choice(FILLERS) for p, _ in chosen})
                where = "enum-value" if any(w == "enum-value" and "\n" in fills[di].get(p, "") for di, toks in enumerate(toks_per_decl)
                                            for p, w in insertion_points(toks)) else ""
                pieces = [join(toks_per_decl[i], fills[i]) for i in order]
                k = rnd.randrange(1, len(pieces) + 1)
                cutset = sorted(rnd.sample(range(1, len(pieces)), min(len(pieces) - 1, k - 1))) if len(pieces) > 1 else []
                texts, prev = [], 0
                for c in cutset + [len(pieces)]:
                    texts.append("\n".join(pieces[prev:c]))
                    prev = c
                record(order, texts, "multi", {"where": where, "filler": "multi"})
        # definitions written by people (the repository's tests), judged by the grammar of DefGrammar.tla alone: as found, and
        # re-rendered with fillers at token boundaries (the meaning of a text does not depend on them)
        ncorpus = 0
        for fname, text in corpus_texts():
            recs.append(corpus_record(len(recs), fname, text, compiled=rnd.random() < 0.5))
            ncorpus += 1
            try:
                toks = tokenize(strip_comments(text))
            except MachineryError:
                continue
            pts = insertion_points(toks)
            for _ in range(6 if thorough else 2):
                chosen = rnd.sample(pts, min(len(pts), rnd.randrange(1, 6))) if pts else []
                fills = {p: rnd.choice(FILLERS) for p, w in chosen if w != "enum-value"}
                recs.append(corpus_record(len(recs), fname, join(toks, fills), compiled=rnd.random() < 0.5))
        rep.extra["corpus_texts"] = ncorpus
        # API histories: add_type with names (cycles, unknown targets, re-declarations) + resolve of every name
        for h in range(1500 if thorough else 150):
            recs.append(api_history(rnd, len(recs)))
        rep.evaluations += len(recs)
        verdicts, _ = tlc.validate_batch("Trace_Parser", recs)
        rep.traces += len(verdicts)
        for r in recs:
            v = verdicts[r["id"]]
            rep.nontrivial_case(r["text"] if "text" in r else r["decls"])
            rep.sample({"tag": r["tag"], "text": r.get("text", "")[:300], "status": r["obs"]["status"]}, limit=4)
            if not v:
                continue
            if v == ["SKIP:outside-grammar"]:
                rep.count("SKIP:outside-grammar")
                continue
            bugs = [c for c in v if c.startswith("SPECBUG")]
            if bugs:
                raise MachineryError(f"the grammar of DefGrammar.tla and the renderer disagree on {r.get('text', '')[:400]!r}: {bugs}")
            if r.get("where") == "enum-value" and ("\n" in r.get("filler", "") or r.get("filler") == "multi"):
                rep.known_hit("F12", r.get("text", "")[:160].replace("\n", "\\n"))
                continue
            rep.violation(f"rendering {r['tag']} filler={r.get('filler')!r}: clauses {v}; status={r['obs']['status']} {r['obs'].get('exc', '')} :: {r.get('text', '')[:500]!r}",
                          {"kind": "parser", "record": r, "clauses": v})

    def replay(self, path):
        print("replay: re-run ./check C13 with the seed in the file name")
        return 0


def api_history(rnd, rid):
    """add_type calls with names as targets on a fresh cstruct object, then resolve() of every name."""
    from dissect.cstruct import cstruct
    from dissect.cstruct.exceptions import ResolveError

    cs = cstruct()
    names = ["n1", "n2", "n3", "n4"]
    decls = []
    status = "ok"
    for _ in range(rnd.randrange(1, 6)):
        name = rnd.choice(names)
        target = rnd.choice(names + ["uint8", "uint16", "nowhere", "BYTE"])
        replace = rnd.random() < 0.25
        decls.append({"kind": "addtype", "name": name, "target": target, "isname": True, "replace": replace})
        try:
            cs.add_type(name, target, replace=replace)
        except ValueError:
            status = "rejected"
            break
        except ResolveError:
            # resolving the new target failed while checking a re-declaration: the call is refused
            status = "rejected-resolve"
            break
        except Exception as e:  # noqa: BLE001
            status = f"error:{type(e).__name__}"
            break
    table = []
    if status == "ok":
        for n in names:
            if n in cs.typedefs:
                try:
                    table.append([n, abstract_of(cs.resolve(n), cs)])
                except ResolveError:
                    table.append([n, {"k": "ResolveError"}])
                except Exception as e:  # noqa: BLE001
                    table.append([n, {"k": "error", "name": type(e).__name__}])
    return {"id": rid, "decls": decls, "consts": [], "tag": "api", "text": str(decls)[:600], "mode": {},
            "obs": {"status": "ok" if status == "ok" else status, "table": table, "same": [], "consts": []}}
