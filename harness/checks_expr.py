"""C10: expressions.  E1 = MC_Expr (the evaluator as a state machine vs the C grammar), E2/E3 = real Expression objects
evaluated on enumerated and random texts, judged by the grammar of ExprGrammar.tla (Trace_Expr)."""
from __future__ import annotations

import itertools
import random

from harness import tlc
from harness.checks_codec import run_mc
from harness.framework import MachineryError

BINOPS = ["|", "^", "&", "<<", ">>", "+", "-", "*", "/", "%"]
PREC = {"|": 0, "^": 1, "&": 2, "<<": 3, ">>": 3, "+": 4, "-": 4, "*": 5, "/": 5, "%": 5}
IDENTS = ["a", "b", "K", "u", "_x1", "len", "U2"]
SIZES = {"uint16": 2, "uint8": 1, "int64": 8, "S": 6, "unsigned int": 4, "unsigned long long": 8, "signed char": 1}


def spell(n, rnd):
    """A literal spelling of the non-negative integer n in one of the four bases, with an optional suffix."""
    base = rnd.choice(["d", "d", "x", "X", "o", "b", "B"]) if rnd else "d"
    if base == "d" or (base == "o" and n == 0 and False):
        s = str(n)
    elif base in "xX":
        s = "0" + base + (format(n, "x") if rnd.random() < 0.5 else format(n, "X"))
    elif base == "o":
        s = "0" + format(n, "o")
    else:
        s = "0" + base + format(n, "b")
    if rnd and rnd.random() < 0.3:
        s += rnd.choice(["u", "U", "l", "L", "ul", "UL", "ull", "lu", "ll", "LL", "llu", "Ul", "uLL"])
    return s


class Node:
    def __init__(self, k, **kw):
        self.k = k
        self.__dict__.update(kw)


def render(t, rnd=None, ctx=0, redundant=False):
    sp = (lambda: rnd.choice(["", " ", "  ", "\t"])) if rnd else (lambda: " ")
    if t.k == "lit":
        return spell(t.n, rnd) if rnd else str(t.n)
    if t.k == "id":
        return t.name
    if t.k == "sizeof":
        if not rnd:
            return f"sizeof({t.name})"
        # a type name may have several words; blanks around and between them are free
        gap = lambda: rnd.choice(["", "", " ", "\t"])   # noqa: E731
        return "sizeof" + gap() + "(" + gap() + rnd.choice([" ", "  ", "\t"]).join(t.name.split(" ")) + gap() + ")"
    if t.k == "un":
        return t.o + (sp() if rnd and rnd.random() < 0.2 else "") + render(t.e, rnd, 6, redundant)
    p = PREC[t.o]
    body = render(t.l, rnd, p, redundant) + sp() + t.o + sp() + render(t.r, rnd, p + 1, redundant)
    if p < ctx or (redundant and ctx > 0) or (rnd and rnd.random() < 0.1):
        return "(" + (sp() if rnd else "") + body + (sp() if rnd else "") + ")"
    return body


def trees(n, leaves):
    if n == 0:
        yield from leaves
        return
    for j in range(n):
        for o in BINOPS:
            for l in trees(j, leaves):
                for r in trees(n - 1 - j, leaves):
                    yield Node("bin", o=o, l=l, r=r)
    for o in "-~":
        for e in trees(n - 1, leaves):
            yield Node("un", o=o, e=e)


def rand_tree(rnd, depth):
    if depth == 0 or rnd.random() < 0.25:
        r = rnd.random()
        if r < 0.5:
            return Node("lit", n=rnd.choice([0, 1, 2, 3, 7, 8, 10, 15, 16, 255, rnd.randrange(0, 5000)]))
        if r < 0.9:
            return Node("id", name=rnd.choice(IDENTS))
        return Node("sizeof", name=rnd.choice(list(SIZES)))
    if rnd.random() < 0.2:
        return Node("un", o=rnd.choice("-~"), e=rand_tree(rnd, depth - 1))
    o = rnd.choice(BINOPS)
    l = rand_tree(rnd, depth - 1)
    if o in ("<<", ">>"):
        r = Node("lit", n=rnd.randrange(0, 9)) if rnd.random() < 0.7 else Node("bin", o="&", l=rand_tree(rnd, depth - 1), r=Node("lit", n=7))
    elif o in ("/", "%"):
        r = Node("lit", n=rnd.randrange(1, 20))
    else:
        r = rand_tree(rnd, depth - 1)
    return Node("bin", o=o, l=l, r=r)


def codes(s):
    return [ord(c) for c in s]


def env_pairs(d):
    return [[codes(k), v] for k, v in d.items()]


def evaluate(expr_obj, ctx):
    try:
        v = expr_obj.evaluate(dict(ctx))
        if not isinstance(v, int) or abs(v) >= 2 ** 31:
            return {"status": "big", "v": 0}
        return {"status": "ok", "v": int(v)}
    except Exception as e:  # noqa: BLE001
        return {"status": "error", "v": 0, "exc": f"{type(e).__name__}: {e}"[:150]}


def big_pairs(d):
    from harness import absyn

    return [[codes(k), absyn.pint(v)] for k, v in d.items()]


def evaluate_big(expr_obj, ctx):
    from harness import absyn

    try:
        v = expr_obj.evaluate(dict(ctx))
        if not isinstance(v, int) or isinstance(v, bool):
            return {"status": "error", "v": {"k": "none"}, "exc": f"not an integer: {v!r}"[:100]}
        return {"status": "ok", "v": absyn.pint(v)}
    except Exception as e:  # noqa: BLE001
        return {"status": "error", "v": {"k": "none"}, "exc": f"{type(e).__name__}: {e}"[:150]}


def make_big_record(rid, text, ctx1, ctx2, consts):
    """An expression over integers of any size (limb values everywhere), on a cstruct object of its own."""
    from dissect.cstruct import Expression, cstruct

    cs = cstruct()
    cs.consts.update(consts)
    cs.load("struct S { uint16 p; uint32 q; };")
    rec = {"id": rid, "kind": "evalbig", "text": codes(text), "src": text, "ctx1": big_pairs(ctx1), "ctx2": big_pairs(ctx2),
           "consts": big_pairs(consts), "sizes": env_pairs(SIZES)}
    try:
        e = Expression(cs, text)
        f1 = evaluate_big(e, ctx1)
        second = evaluate_big(e, ctx2)
        again1 = evaluate_big(e, ctx1)
        fresh2 = evaluate_big(Expression(cs, text), ctx2)
    except Exception as ex:  # noqa: BLE001
        err = {"status": "error", "v": {"k": "none"}, "exc": f"{type(ex).__name__}: {ex}"[:150]}
        f1 = second = again1 = fresh2 = err
    rec["obs"] = {"fresh1": f1, "second": second, "again1": again1, "fresh2": fresh2}
    return rec


BIG = [2 ** 53 + 1, 2 ** 64 - 1, 2 ** 64, 2 ** 63, 10 ** 30 + 7, 0xFFFFFFFFFFFFFFFFFFFF, 2 ** 31, 2 ** 32 + 5, 3 ** 40, 2 ** 24 + 1, 12345678901234567890]


def rand_big_tree(rnd, depth):
    if depth == 0 or rnd.random() < 0.25:
        r = rnd.random()
        if r < 0.45:
            return Node("lit", n=rnd.choice(BIG + [1, 2, 3, 7, 255, 1000, 65536]))
        if r < 0.8:
            return Node("id", name=rnd.choice(["a", "b", "K", "big", "len"]))
        return Node("sizeof", name=rnd.choice(list(SIZES)))
    if rnd.random() < 0.2:
        return Node("un", o=rnd.choice("-~"), e=rand_big_tree(rnd, depth - 1))
    o = rnd.choice(BINOPS)
    l = rand_big_tree(rnd, depth - 1)
    if o in ("<<", ">>"):
        r = Node("lit", n=rnd.choice([0, 1, 7, 8, 31, 32, 33, 64, 100]))
    elif o in ("/", "%"):
        r = rnd.choice([Node("lit", n=rnd.choice([1, 2, 3, 7, 10, 1024, 2 ** 32, 10 ** 12, 2 ** 53 + 1])), rand_big_tree(rnd, 0)])
    else:
        r = rand_big_tree(rnd, depth - 1)
    return Node("bin", o=o, l=l, r=r)


def make_record(rid, text, ctx1, ctx2, consts, cs):
    from dissect.cstruct import Expression

    rec = {"id": rid, "kind": "eval", "text": codes(text), "src": text, "ctx1": env_pairs(ctx1), "ctx2": env_pairs(ctx2),
           "consts": env_pairs(consts), "sizes": env_pairs(SIZES)}
    try:
        e = Expression(cs, text)
        f1 = evaluate(e, ctx1)
        second = evaluate(e, ctx2)
        again1 = evaluate(e, ctx1)
        fresh2 = evaluate(Expression(cs, text), ctx2)
    except Exception as ex:  # noqa: BLE001 - the tokenizer refused a well-formed text
        err = {"status": "error", "v": 0, "exc": f"{type(ex).__name__}: {ex}"[:150]}
        f1 = second = again1 = fresh2 = err
    rec["obs"] = {"fresh1": f1, "second": second, "again1": again1, "fresh2": fresh2}
    return rec


def arrlen_record(rid, text, rnd, consts):
    """The expression as an array length: struct { uint8 a; uint8 b; uint8 u; uint8 d[<text>]; }"""
    from dissect.cstruct import cstruct

    a, b, u = rnd.randrange(0, 8), rnd.randrange(0, 8), rnd.randrange(0, 4)
    ctx = {"a": a, "b": b, "u": u}
    rec = {"id": rid, "kind": "arrlen", "text": codes(text), "src": text, "ctx1": env_pairs(ctx), "ctx2": env_pairs(ctx),
           "consts": env_pairs(consts), "sizes": env_pairs(SIZES)}
    try:
        cs = cstruct()
        cs.load("".join(f"#define {k} {v}\n" for k, v in consts.items()) + "struct S { uint16 p; uint32 q; };\n"
                f"struct T {{ uint8 a; uint8 b; uint8 u; uint8 d[{text}]; }};", compiled=rnd.random() < 0.5)
        v = cs.T(bytes([a, b, u]) + bytes(4100))
        rec["obs"] = {"status": "ok", "n": len(v.d)}
    except Exception as e:  # noqa: BLE001
        rec["obs"] = {"status": "error", "n": -1, "exc": f"{type(e).__name__}: {e}"[:150]}
    return rec


class ExprCheck:
    prop = "C10"

    def run(self, rep):
        from dissect.cstruct import cstruct

        thorough = rep.tier == "thorough"
        rnd = random.Random(rep.seed)
        rep.rule = ("E1: every tree with <= 1 operator over all leaf kinds (literal, field, constant, identifier u, sizeof) and (thorough) "
                    "<= 2 operators, rendered with minimal/redundant parentheses and tight/loose spacing, run through the evaluator "
                    "state machine twice (two contexts); E2/E3: the same enumeration and random texts (depth <= 4, literals in 4 bases "
                    "with suffixes, 7 identifiers, random spacing/tabs/redundant parentheses) on real Expression objects: fresh, "
                    "repeated with another context, repeated with the first, and as array lengths of parsed structures; "
                    "non-trivial = distinct text with a value inside the guarded domain")
        rep.assumptions += ["values guarded to |v| < 2^24, shift counts <= 20, / and % on non-negative / positive operands (the property's domain)"]
        run_mc(rep, "MC_Expr", cfg="MC_Expr_leaves", coverage=False)     # no parentheses arise with <= 1 operator: Close is dead here
        run_mc(rep, "MC_Expr", cfg="MC_Expr_parens")                       # <= 2 operators over literals: parentheses, every action taken
        if thorough:
            run_mc(rep, "MC_Expr", cfg="MC_Expr", timeout=3000)
        # negative control: with the pre-fix unary marker "u" TLC must produce the counter-example of finding F8
        neg = tlc.run(tlc.VERIF + "/mc/MC_Expr.tla", tlc.VERIF + "/mc/MC_Expr_F8.cfg", workers=8)
        if not neg.violated:
            raise MachineryError("negative control MC_Expr_F8 did not produce a counter-example: the model is vacuous")
        rep.extra["negative_control"] = "MC_Expr_F8 (unary marker 'u') violates MachineIsC as expected"

        cs = cstruct()
        consts = {"K": 2, "u": 7, "a": 100, "len": 4}
        cs.consts.update(consts)
        cs.load("struct S { uint16 p; uint32 q; };")
        # a and len are bound in a context AND are constants: the context wins, also when its value is 0 (a falsy field value
        # must not fall through to the constant)
        ctx1 = {"a": 5, "u": 3, "b": 2, "_x1": 9, "U2": 1, "len": 0}
        ctx2 = {"a": 0, "b": 6, "_x1": 0, "U2": 4}
        leaves = [Node("lit", n=1), Node("lit", n=2), Node("lit", n=3), Node("id", name="a"), Node("id", name="K"),
                  Node("id", name="u"), Node("sizeof", name="uint16"), Node("sizeof", name="unsigned int")]
        recs = []
        for n in (0, 1):
            for t in trees(n, leaves):
                for red in (False, True):
                    recs.append(make_record(len(recs), render(t, None, 0, red), ctx1, ctx2, consts, cs))
        small = leaves[:4]
        deep = list(trees(2, small))
        if not thorough:
            deep = rnd.sample(deep, 1500)
        for t in deep:
            recs.append(make_record(len(recs), render(t, None, 0, False), ctx1, ctx2, consts, cs))
        for _ in range(60000 if thorough else 2500):
            t = rand_tree(rnd, rnd.randrange(1, 5))
            recs.append(make_record(len(recs), render(t, rnd, 0, rnd.random() < 0.2), ctx1, ctx2, consts, cs))
        for _ in range(6000 if thorough else 400):
            t = rand_tree(rnd, rnd.randrange(1, 4))
            txt = render(t, rnd, 0, False).replace("\t", " ")
            if any(i in txt for i in ("_x1", "U2", "len")):
                continue
            recs.append(arrlen_record(len(recs), txt, rnd, {"K": 2, "len": 4}))
        # unbounded integers: literals, constants and field values far beyond 2^53 / 2^64 (judged by BigMeaning)
        bctx1 = {"a": 2 ** 70 + 3, "b": 5, "big": 10 ** 25, "len": 0}
        bctx2 = {"a": 0, "b": 2 ** 64 - 1, "big": 2 ** 53 + 1}
        bconsts = {"K": 2 ** 40, "a": 7, "len": 12345678901234567890, "big": 1}
        for _ in range(6000 if thorough else 500):
            t = rand_big_tree(rnd, rnd.randrange(1, 4))
            recs.append(make_big_record(len(recs), render(t, rnd, 0, rnd.random() < 0.2), bctx1, bctx2, bconsts))
        rep.evaluations += len(recs)
        verdicts, stats = tlc.validate_batch("Trace_Expr", recs)
        rep.traces += len(verdicts)
        for r in recs:
            v = verdicts[r["id"]]
            if any(c.startswith("SPECBUG") for c in v):
                raise MachineryError(f"specification failure {v} on the generated expression {r['src']!r}")
            if any(c.startswith("SKIP") for c in v):
                rep.count(v[0])
                continue
            rep.nontrivial_case(r["src"])
            rep.sample({"text": r["src"], "obs": r["obs"]})
            if v:
                rep.violation(f"expression {r['src']!r} ({r['kind']}): clauses {v}; observed {r['obs']}", {"kind": "expr", "record": r, "clauses": v})

    def replay(self, path):
        import json

        from dissect.cstruct import cstruct

        with open(path) as fh:
            r = json.load(fh)["replay"]["record"]
        print("expression:", r["src"], "recorded:", r["obs"])
        return 0
