"""C15: concurrent parsing with shared types.  E1 = MC_Threads (all interleavings of the evaluator at line granularity, with the
pre-fix layout as negative control); E4 = real threads under the deterministic scheduler of harness/sched.py; every distinct
per-thread outcome is judged against Decode (= the solo result) by Trace_Codec."""
from __future__ import annotations

import io
import json
import random

from harness import absyn as A
from harness import codec, sched, tlc
from harness.checks_codec import adjudicate, run_mc
from harness.framework import MachineryError

CFG = {"eof": False, "depth": 1, "max_fields": 5, "w": (0.25, 0.4, 0.8, 0.9, 0.9)}


def thread_func(T, t, data, start):
    def f():
        st = io.BytesIO(data)
        st.seek(start)
        v = T.read(st)
        pos = st.tell()
        # touch lazily evaluated parts as a user would: pointers are dereferenced, the value is dumped
        for fld, rf in zip(t["fields"], T.__fields__):
            if fld["type"]["k"] == "ptr":
                try:
                    getattr(v, rf._name).dereference()
                except Exception:  # noqa: BLE001
                    pass
        res = {"status": "ok", "exc": "", "v": A.project(v, t), "pos": pos, "sizes": codec.sizes_of(v, T), "dump": codec.NO_DUMP, "re": codec.NO_RE}
        try:
            res["dump"] = {"status": "ok", "b": list(v.dumps()), "exc": ""}
        except Exception as e:  # noqa: BLE001
            res["dump"] = {"status": "error", "b": [], "exc": f"{type(e).__name__}: {e}"[:120]}
        return res
    return f


def outcome(r):
    if r[0] == "ok":
        return r[1]
    e = r[1]
    return {"status": codec.classify(e), "exc": f"{type(e).__name__}: {e}"[:160], "v": codec.NONE_V, "pos": 0, "sizes": [],
            "dump": codec.NO_DUMP, "re": codec.NO_RE}


def scenario(rnd):
    while True:
        scn = codec.gen_scenario(rnd, CFG, top_union=0.1)
        if "[" in scn["defs"] or ":" in scn["defs"]:
            return scn


def directed_scenarios(rnd):
    """Definitions whose parse computes something from the data and uses it later (array lengths from fields, bit units, union
    members, strings): whatever a reader parks on a shared type object between computing and using it is clobbered by another
    thread parsing OTHER data.  Inputs are small numbers so that the threads' lengths are valid and different."""
    u8, u16 = A.t_int("uint8"), A.t_int("uint16")
    pair = A.t_struct("pr", [A.field("a", u8), A.field("b", u8)])
    row = A.t_struct("rw", [A.field("k", u8), A.field("d", A.t_arr(u8, A.L_expr(A.e_id("k"))))])
    defs = [
        A.t_struct("D1", [A.field("n", u8), A.field("w", u8), A.field("values", A.t_arr(u16, A.L_expr(A.e_id("n")))),
                          A.field("grid", A.t_arr(A.t_arr(A.t_char(), A.L_expr(A.e_id("w"))), A.L_expr(A.e_id("n")))), A.field("tail", u8)]),
        A.t_struct("D2", [A.field("a", u16, 4), A.field("b", u16, 12), A.field("d", A.t_arr(u8, A.L_expr(A.e_id("a")))),
                          A.field("c", A.t_int("uint32"), 8), A.field("e", A.t_int("uint32"), 24)]),
        A.t_struct("D3", [A.field("n", u8), A.field("ps", A.t_arr(pair, A.L_expr(A.e_bin("+", A.e_id("n"), A.e_lit(1))))),
                          A.field("z", A.t_arr(u16, A.L_NULL)), A.field("s", A.t_arr(A.t_wchar(), A.L_expr(A.e_id("n"))))]),
        A.t_struct("D4", [A.field("m", u8), A.field("rows", A.t_arr(row, A.L_expr(A.e_id("m")))), A.field("t", u8)]),
        A.t_struct("D5", [A.field("n", u8), A.field("body", A.t_struct("ub", [A.field("x", A.t_arr(u8, A.L_expr(A.e_id("n")))), A.field("y", u16)], union=True)),
                          A.field("l", A.t_leb(False)), A.field("q", A.t_arr(u8, A.L_expr(A.e_id("l"))))]),
        # parenthesised and nested operators: every branch of the evaluator (closing parenthesis, precedence pops, unary) runs
        A.t_struct("D6", [A.field("a", u8), A.field("b", u8),
                          A.field("data", A.t_arr(u8, A.L_expr(A.e_bin("*", A.e_bin("+", A.e_id("a"), A.e_id("b")), A.e_lit(2))))),
                          A.field("more", A.t_arr(u16, A.L_expr(A.e_bin("&", A.e_bin("-", A.e_bin("<<", A.e_id("a"), A.e_lit(1)), A.e_un("-", A.e_id("b"))), A.e_lit(7))))),
                          A.field("tail", u8)]),
        # lengths naming the fields of anonymous members (the context handed on is built from them)
        A.t_struct("D7", [A.field("k", u8), A.field("", A.t_struct("", [A.field("n", u8), A.field("", A.t_struct("", [A.field("m", u8)]), anon=True)]), anon=True),
                          A.field("data", A.t_arr(u8, A.L_expr(A.e_id("n")))), A.field("more", A.t_arr(u16, A.L_expr(A.e_bin("&", A.e_id("m"), A.e_lit(3))))),
                          A.field("t", u8)]),
        # a fixed-size union whose first member is not its largest (the writer decides which member to write), dumped by every thread
        A.t_struct("D8", [A.field("n", u8), A.field("u", A.t_struct("uf", [A.field("s", u8), A.field("q", A.t_int("uint32")), A.field("h", u16)], union=True)),
                          A.field("d", A.t_arr(u8, A.L_expr(A.e_id("n")))), A.field("t", u16)]),
    ]
    out = []
    for t in defs:
        mode = {"endian": rnd.choice("<>"), "align": rnd.random() < 0.3, "ptr": 8}
        out.append({"type": t, "mode": mode, "consts": {}, "defs": A.render(t)})
    return out


def small_inputs(rnd, nthreads, start):
    datas = []
    while len(set(datas)) < nthreads:
        datas = [bytes(rnd.randrange(256) for _ in range(start)) + bytes(rnd.choice([0, 1, 1, 2, 2, 3, 4]) for _ in range(70)) for _ in range(nthreads)]
    return datas


def explore(rnd, scn, compiled, nthreads, budget, datas=None):
    """Run the scenario under many schedules; returns (records of distinct outcomes, number of schedules, divergences)."""
    t, mode = scn["type"], scn["mode"]
    cs = codec.load(scn["defs"], mode, compiled)
    T = getattr(cs, t["name"])
    start = codec.start_for(rnd, scn)
    datas = small_inputs(rnd, nthreads, start) if datas == "small" else [codec.gen_input(rnd, start, maxlen=70) for _ in range(nthreads)]
    funcs = [thread_func(T, t, d, start) for d in datas]
    solo = []
    lines = []
    for f in funcs:
        r, n = sched.solo_lines(f)
        solo.append(outcome(r))
        lines.append(n)
    plans = []
    # every single preemption of thread 0 (thread 1 runs to completion in the gap), and of thread 1
    for k in range(1, lines[0] + 1):
        plans.append([(0, k), (1, None)])
    for k in range(1, lines[1] + 1):
        plans.append([(1, k), (0, None)])
    if len(plans) > budget:
        plans = rnd.sample(plans, budget)
    # double preemptions (sampled) and, with three threads, rotations
    for _ in range(budget // 3):
        a, b = rnd.randrange(1, lines[0] + 1), rnd.randrange(1, lines[1] + 1)
        plans.append([(0, a), (1, b), (0, None)] if rnd.random() < 0.5 else [(1, b), (0, a), (1, None)])
        if nthreads == 3:
            c = rnd.randrange(1, lines[2] + 1)
            plans.append([(0, a), (2, c), (1, b), (0, None), (2, None)])
    seen = {}
    diverged = 0
    for plan in plans:
        run_funcs = funcs
        if rnd.random() < 0.3:
            # a FRESH object: whatever the library sets up lazily on first use (and the solo runs above have long set up on `cs`)
            # is set up under this schedule (seed S115: a write order cached on the class while it is being built)
            T2 = getattr(codec.load(scn["defs"], mode, compiled), t["name"])
            run_funcs = [thread_func(T2, t, d, start) for d in datas]
        res, _ = sched.Run(run_funcs, plan).run()
        for tid, r in enumerate(res):
            o = outcome(r)
            key = (tid, json.dumps(o, sort_keys=True))
            if key not in seen:
                seen[key] = (tid, o, plan)
            if o != solo[tid]:
                diverged += 1
    recs = []
    for tid, o, plan in seen.values():
        recs.append({"id": 0, "kind": "parse", "type": t, "mode": mode, "consts": scn["consts"] or {"_": 0}, "input": list(datas[tid]),
                     "start": start, "defs": scn["defs"], "req_compiled": compiled, "tag": f"thread{tid} plan={plan}",
                     "obs": {"layout": A.project_layout(T), "res": o}})
    return recs, len(plans), diverged


class ThreadsCheck:
    prop = "C15"

    def run(self, rep):
        thorough = rep.tier == "thorough"
        rnd = random.Random(rep.seed)
        rep.rule = ("E1: all interleavings of 2 (thorough: 3) threads evaluating one shared Expression object at the granularity of "
                    "source lines touching evaluator state; E4: real threads parsing independent streams with shared types under a "
                    "deterministic scheduler (sys.settrace line events in dissect/cstruct and generated readers): EVERY "
                    "single-preemption schedule of thread 0 and of thread 1 (sampled above the budget), sampled double preemptions and "
                    "3-thread rotations, over random definitions with expression lengths, bit-fields, unions, pointers (dereferenced in "
                    "the thread) and arrays, both readers, plus seven directed definitions (lengths from fields in 1 and 2 dimensions, bit units, "
                    "arrays of dynamic structures, union, LEB128 length) on small, different inputs; every distinct per-thread outcome is validated against Decode; "
                    "non-trivial = distinct (scenario, thread, outcome) records")
        run_mc(rep, "MC_Threads", cfg="MC_Threads_3" if thorough else "MC_Threads")
        neg = tlc.run(tlc.VERIF + "/mc/MC_Threads.tla", tlc.VERIF + "/mc/MC_Threads_shared.cfg", workers=4)
        if "Isolated" not in neg.violated:
            raise MachineryError("negative control MC_Threads_shared did not violate Isolated")
        rep.extra["negative_control"] = "MC_Threads_shared (evaluator stacks on the shared object, finding F13) violates Isolated as expected"
        recs, nsched, ndiv = [], 0, 0
        for i in range(150 if thorough else 24):
            scn = scenario(rnd)
            try:
                r, n, d = explore(rnd, scn, rnd.random() < 0.5, 3 if (thorough and i % 3 == 0) else 2, 900 if thorough else 260)
            except RuntimeError as e:
                raise MachineryError(str(e)) from e
            recs += r
            nsched += n
            ndiv += d
        for scn in directed_scenarios(rnd):
            for compiled in (False, True):
                try:
                    r, n, d = explore(rnd, scn, compiled, 2, 1500 if thorough else 500, datas="small")
                except RuntimeError as e:
                    raise MachineryError(str(e)) from e
                recs += r
                nsched += n
                ndiv += d
        rep.extra["schedules_executed"] = nsched
        rep.extra["thread_results_differing_from_solo"] = ndiv
        adjudicate(rep, recs, {"status", "value", "pos", "sizes", "dump"}, nontrivial=lambda r: True)

    def replay(self, path):
        print("replay: re-run ./check C15 with the seed in the file name")
        return 0
