"""C20: generated type stubs.  The stub text of a real cstruct object is parsed with `ast`, projected to a declaration tree
and judged by Trace_Stub against StubDecls of the abstract declaration list."""
from __future__ import annotations

import ast
import random

from harness import absyn as A
from harness import codec, tlc
from harness.checks_codec import run_mc
from harness.checks_parser import make_decls, spec_decls


def hint_tree(node):
    """Annotation AST -> tree of bare names (module prefixes dropped, generated anonymous names blanked)."""
    if isinstance(node, ast.BinOp) and isinstance(node.op, ast.BitOr):      # X | None
        return hint_tree(node.left)
    if isinstance(node, ast.Subscript):
        return {"k": "sub", "base": hint_tree(node.value)["id"], "arg": hint_tree(node.slice)}
    if isinstance(node, ast.Attribute):
        return {"k": "name", "id": blank(node.attr)}
    if isinstance(node, ast.Name):
        return {"k": "name", "id": blank(node.id)}
    if isinstance(node, ast.Constant):
        return {"k": "name", "id": repr(node.value)}
    return {"k": "name", "id": ast.dump(node)[:40]}


def bare_leaves(node):
    """Type names used without qualification in an annotation (generic bases such as Array[...] excluded)."""
    if isinstance(node, ast.BinOp) and isinstance(node.op, ast.BitOr):
        return bare_leaves(node.left)
    if isinstance(node, ast.Subscript):
        return bare_leaves(node.slice)
    if isinstance(node, ast.Name):
        return [blank(node.id)]
    return []


def qualified_leaves(node):
    """Type names an annotation refers to THROUGH the stub class (cstruct.X): they have to be declared at its top level."""
    if isinstance(node, ast.BinOp) and isinstance(node.op, ast.BitOr):
        return qualified_leaves(node.left)
    if isinstance(node, ast.Subscript):
        return qualified_leaves(node.slice)
    if isinstance(node, ast.Attribute) and isinstance(node.value, ast.Name):
        return [blank(node.attr)]
    return []


def blank(name):
    return "" if name.startswith("__anonymous_") else name


def project_stub(text):
    try:
        tree = ast.parse(text)
    except SyntaxError as e:
        return {"valid": False, "consts": [], "classes": [], "aliases": [], "typealiases": [], "other": [], "scopes": [], "err": f"line {e.lineno}: {(e.text or '').strip()[:80]}"}
    top = [n for n in tree.body if isinstance(n, ast.ClassDef)]
    out = {"valid": True, "consts": [], "classes": [], "aliases": [], "typealiases": [], "other": [], "scopes": []}
    if len(top) != 1:
        out["other"].append("not exactly one top-level class")
        return out
    for n in top[0].body:
        if isinstance(n, ast.AnnAssign) and isinstance(n.target, ast.Name):
            ann = n.annotation
            if isinstance(ann, ast.Subscript) and getattr(ann.value, "id", "") == "Literal":
                v = ann.slice.value if isinstance(ann.slice, ast.Constant) else None
                out["consts"].append([n.target.id, v if isinstance(v, int) and not isinstance(v, bool) else repr(v)])
            elif getattr(ann, "id", "") == "TypeAlias" and n.value is not None:
                h = hint_tree(n.value)
                if h["k"] == "sub" or h["id"] in ("CharArray", "WcharArray"):
                    out["typealiases"].append([n.target.id, h])       # a name of an array / pointer type
                else:
                    out["aliases"].append([n.target.id, h["id"]])
            else:
                out["other"].append(f"annotation {n.target.id}")
        elif isinstance(n, ast.ClassDef):
            base = hint_tree(n.bases[0])["id"] if n.bases else ""
            fields, members, bare, inline, qual = [], [], [], [], []
            for b in n.body:
                if isinstance(b, ast.AnnAssign) and isinstance(b.target, ast.Name):
                    fields.append([b.target.id, hint_tree(b.annotation)])
                    bare += bare_leaves(b.annotation)
                    qual += qualified_leaves(b.annotation)
                elif isinstance(b, ast.Assign) and len(b.targets) == 1 and isinstance(b.targets[0], ast.Name):
                    members.append(b.targets[0].id)
                elif isinstance(b, ast.ClassDef):
                    inline.append(blank(b.name))
            out["classes"].append({"name": n.name, "base": base, "fields": fields, "members": members})
            # names a hint uses without the stub class prefix must be declared in the same class body (inline classes)
            out["scopes"].append({"name": n.name, "bare": sorted(set(bare)), "inline": sorted(set(inline)), "qual": sorted(set(qual))})
        elif isinstance(n, ast.Expr) and isinstance(n.value, ast.Constant) and n.value.value is Ellipsis:
            pass
        else:
            out["other"].append(type(n).__name__)
    return out


def stub_record(rid, rnd, special=None):
    from dissect.cstruct.tools.stubgen import generate_cstruct_stub

    decls, consts, mode = make_decls(rnd, typedecl=False)
    if special == "typedef-array-or-pointer" and not any(d["kind"] in ("aliasarr", "aliasptr") for d in decls):
        decls.append({"kind": "aliasarr", "names": ["arr9"], "target": "uint16", "n": 4, "text": "typedef uint16 arr9[4];", "deps": set(), "key": "arr9"})
    text = "\n".join(d["text"] for d in decls)
    if special == "anonymous-enum" or (special is None and rnd.random() < 0.3):
        # the members of an enumeration - or a flag - without a name are constants
        if rnd.random() < 0.5:
            text += "\nenum : uint8 { AA, BB = 4 };"
            consts = dict(consts, AA=0, BB=4)
        else:
            text += "\nflag : uint16 { FA = 1, FB, FC = 0x10 };"
            consts = dict(consts, FA=1, FB=2, FC=16)
    if special == "keyword-field":
        text += "\nstruct kw { uint8 in; uint8 ok; };"
    rec = {"id": rid, "decls": spec_decls(decls, range(len(decls))), "consts": [[k, v] for k, v in sorted(consts.items())], "text": text[:1500],
           "special": special or ""}
    cs = codec.new_cs(mode)
    try:
        cs.load(text, align=mode["align"])
        stub = generate_cstruct_stub(cs)
        rec["obs"] = project_stub(stub)
        rec["stub"] = stub[:3000]
    except Exception as e:  # noqa: BLE001
        rec["obs"] = {"valid": False, "consts": [], "classes": [], "aliases": [], "typealiases": [], "other": [], "scopes": [], "err": f"{type(e).__name__}: {e}"[:200]}
    return rec


class StubCheck:
    prop = "C20"

    def run(self, rep):
        thorough = rep.tier == "thorough"
        rnd = random.Random(rep.seed)
        rep.rule = ("random declaration lists (structs/unions with nested, anonymous, bit-field, array, pointer members; enums, flags; "
                    "`typedef struct {..} A, B;`; typedef chains over built-in synonyms and user types; integer #defines) are loaded, "
                    "generate_cstruct_stub is run, the text is parsed with ast and projected to (valid, constants, classes with bases, "
                    "fields and hint trees, enum members, aliases, anything else); Trace_Stub compares with StubDecls; typedefs of arrays / pointers and anonymous "
                    "enums (once invalid Python, finding F62) are part of every list and also run as tagged scenarios, the keyword field "
                    "name (finding F15) as a tagged scenario; non-trivial = distinct declaration list")
        # E1 for this property is the name-table model shared with C13 (aliases in the stub follow Resolve)
        run_mc(rep, "MC_TypeTable")
        recs = []
        for _ in range(4000 if thorough else 300):
            recs.append(stub_record(len(recs), rnd))
        for sp in ("typedef-array-or-pointer", "anonymous-enum", "keyword-field"):
            for _ in range(40 if thorough else 8):
                recs.append(stub_record(len(recs), rnd, sp))
        rep.evaluations += len(recs)
        verdicts, _ = tlc.validate_batch("Trace_Stub", recs)
        rep.traces += len(verdicts)
        for r in recs:
            v = verdicts[r["id"]]
            rep.nontrivial_case(r["text"])
            rep.sample({"text": r["text"][:300], "valid": r["obs"]["valid"], "classes": [c["name"] for c in r["obs"]["classes"]]}, limit=3)
            if not v:
                continue
            if r["special"] == "keyword-field" and (v == ["invalid-python"] or set(v) <= {"classes", "consts", "extra-declarations", "aliases", "unresolvable-hint"}):
                rep.known_hit("F15", f"{r['special']}: {r['obs'].get('err', '')}")
                continue
            rep.violation(f"stub of {r['text'][:400]!r}: clauses {v}; {r['obs'].get('err', '')} classes={str(r['obs']['classes'])[:500]} aliases={r['obs']['aliases']} other={r['obs']['other']}",
                          {"kind": "stub", "record": r, "clauses": v})

    def replay(self, path):
        print("replay: re-run ./check C20 with the seed in the file name")
        return 0
