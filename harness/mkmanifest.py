"""Regenerate MANIFEST.json from the registry (python -m harness.mkmanifest)."""
import json
import os

from harness.registry import CHECKS

VERIF = os.path.dirname(os.path.dirname(os.path.abspath(__file__)))

LEVEL = {
    "C01": ("Codec.tla states what dumps()/parse must do for every type and value; TLC proves RoundTrip/Fidelity/SizeAgree/WindowOnly of the specification exhaustively over the bounded universe (MC_Codec) and judges thousands of recorded dump/re-parse executions of the real library, including constructed values and values with one number that does not fit, against Encode/Fits (Trace_Codec).",
            "bounded model checking of the TLA+ spec + trace validation of recorded executions; beyond the bounds assurance is testing against the spec as oracle. Float numeric interpretation is done by the projection (struct)."),
    "C02": ("The data mask of every byte comes from the declarative layout (Enc returns bytes and masks); TLC proves Fidelity on the spec over the bounded universe, proves the structure writer's loop (MC_Writer: one step per field with the bit buffer's flush / pad / align decisions of the code) equal to Enc, and checks every recorded dumps() bit for bit against input AND mask.",
            "domain restricted to canonical encodings by spec flags (nan, nonmin); known finding F16 (union dump through one member) is recognised by the named deviation operator EncodeKnownDeviation and listed, not raised."),
    "C03": ("Both readers are bound to the single Decode of the specification and to each other: every scenario is run with compiled=True and False, TLC compares the observations (values, sizes of byte-occupying fields, consumed bytes, layout, outcome on short input) and checks __compiled__ = Compilable(d).",
            "trace validation against the spec; the generated source itself is not (yet) translated into the Plan model."),
    "C04": ("CLayout (Layout.tla) is the declarative C rule; TLC compares projected size/alignment/offsets of real classes, sizeof() evaluated by a real Expression, consumed and dumped byte counts with it; MC_Codec proves SizeAgree on the spec; MC_Layout proves the step machine mirroring the code's loop equal to CLayout and validates CLayout against ctypes (native C ABI) offsets.",
            "int24/48/128 have no C counterpart: their alignments are design constants. Bit-field placement is C06's."),
    "C09": ("Decode takes (bytes, start) and returns (value, end): position independence is a theorem of the spec (WindowOnly, InBounds in MC_Codec); MC_Reader is the interpreted reader's loop as a state machine (seek / align relative to the structure's start / bit-buffer fetch / member read per field) started at stream position 3 and proved equal to Decode on every truncation of the input patterns, with the absolute-alignment reader of finding F35 as negative control; recorded executions use random start offsets, prefixes and suffixes, every call form x input kind, and histories of consecutive parses on one stream; TLC checks value, position, recorded sizes and that all forms agree.",
            "aligned structures are started at arbitrary offsets too (alignment is relative to the structure's first byte; finding F35 repaired)."),
    "C05": ("Builtins.tla states what every built-in name denotes (from C / stdint / Windows SDK meaning), Codec.tla the encodings (two's complement on limbs, UTF-16 with surrogates, LEB128 with canonical form); MC_Scalar proves decode/encode inverse, the two's-complement value, and the per-byte LEB machine equal to the closed form exhaustively over boundary alphabets with an endianness switch between read and write; Trace_Scalar is a state machine whose only state is the byte order in force and judges recorded histories New/SetEndian/Read/Write on real cstruct objects, over every name in cs.typedefs and a structure compiled before the switches.",
            "IEEE-754 numeric interpretation is done by the projection (struct); @ and = are outside the domain."),
    "C06": ("MC_Bits is the BitBuffer as a state machine (one action per branch of read/write/flush) proved equal to the declarative partition rule and to Codec!Decode/Enc for all non-straddling width sequences (<=4 fields, unit sizes 1/2/4, 4 contents, both endiannesses); the enumerated bit-field family (13 storage types incl. signed/char/enum/flag/int24/48, neighbours, straddling sequences that must be rejected) and random definitions run through both readers and the writer and are judged by Trace_Codec.",
            "values that do not fit the bit width must be refused (C01 owns that clause; finding F36 repaired)."),
    "C07": ("Array semantics (fixed / expression / null-terminated / to end of stream, C-order nesting, zero test per element kind, refusal of wrong counts) are part of Codec.tla Decode/Enc/Fits; MC_Codec proves round trip and fidelity for the array members of the universe; array-heavy random definitions over every element kind and length form are run through both readers and judged by TLC, and constructed values with a wrong element count must be refused.",
            "length expressions are range-guarded (|v| < 2^24); identifier shadowing of a constant by a field is finding F9."),
    "C08": ("MC_Cuts proves on the specification, for every case, input and EVERY cut point, that a shortened input yields EOF, the complete value, or a lax outcome (trailing padding / [EOF] arrays) - never another value; the real library is then run on every cut of accepted inputs and with every single stream fault of the clean run injected through a faulty stream object (short read by 1, 2 or all bytes; raising), both readers, followed by clean parses (no residue); Trace_Codec judges each outcome (clauses status, value, fabricated, fault-status).",
            "fault_enumeration inside model checking: faults are single (one per run); [EOF] arrays are exempt under stream faults."),
    "C10": ("ExprGrammar.tla is the C grammar of the property (lexer for the four literal bases with u/l suffixes + precedence-climbing parser, left associative) and is the oracle on range-guarded integers; ExprBig.tla / BigInt.tla give the same grammar's meaning over unbounded integers (limb arithmetic with long division and two's-complement bitwise operators), bound to real Expression objects on operands up to 2^100 and cross-checked against ExprGrammar on every small expression; MC_Expr runs the evaluator of expression.py as a state machine (token rewrite of unary minus, one action per branch of the shunting-yard loop, evaluate_exp, drain; two evaluations on one object with different contexts) on every tree <= 1 operator over all leaf kinds (thorough: <= 2 operators, 1.15M states) and proves MachineIsC, GrammarIsTree, Repeatable, NoError, RewriteIdempotent; with the pre-fix unary marker TLC returns the counter-example of finding F8 (negative control run in every check). Real Expression objects are then evaluated on the same enumeration and on random texts (fresh, repeated with another context, as array lengths of parsed structures) and judged by the grammar (Trace_Expr).",
            "values guarded to |v| < 2^24, shift counts <= 20; / and % only for non-negative / positive operands, as the property states."),
    "C11": ("UnionOps.tla: a union is one buffer, members are Decode(member, buf), an assignment replaces exactly the data bits of the written member's new encoding; MC_Union proves SizeIsLargest, Visible, OthersKeep, DumpIsBuffer for all unions of 1..2 (3) members of a 12-kind alphabet and all assignment sequences <= 3; Trace_Union is a stateful trace specification (state = the buffer) that judges histories Parse|Default, Assign* recorded on real union objects - all member views and dumps() after every step. The implementation's known deviations (F16 dump through one member, F27 whole-extent overwrite) are named operators; a trace that matches a deviation continues from the deviating buffer so the rest is still checked; MC_Union_dev is the negative control.",
            "array-element assignment (u.arr[0] = x) is not an assignment to a member in the sense of the property and is not driven."),
    "C12": ("EnumSpec.tla: declarative numbering (enum: previous+1, flag: next higher power of two, explicit values = ExprGrammar over earlier members) and the equality rule; MC_Enum proves the parser's numbering loop equal to it for all member lists <= 4 over 10 value forms; random declarations are loaded into the real library and members, the equality matrix (same class, other class incl. enum vs flag, int, alias member) and two-parses equality/hash for member, non-member, min, max values are judged by Trace_Enum; enum/flag scalars, arrays and bit-fields are parsed and dumped through Trace_Codec.",
            "flags over signed base types with negative values are finding F19 (listed)."),
    "C13": ("TypeTable.tla states the name table (AddType with the re-declaration rule, Resolve with the hop bound, declarative Meaning); MC_TypeTable proves ResolveIsMeaning, NeverBindsElsewhere, SameObject, Redeclare over all histories of <= 4 add_type calls (3 names, 2 types, unknown targets, replace on/off). Abstract declaration lists are rendered with EVERY single insertion point x sampled fillers (space, tab, LF, CRLF, block / multi-line / line comments), random multi-insertions, dependency-respecting orders and splits into several load() calls; after each rendering the real table (every declared name projected back to an abstract type, alias identity, constants) is judged by Trace_Parser against the table obtained by folding the declarations over TypeTable from the built-in names. DefGrammar.tla is the definition language itself as a grammar over the characters of the text (lexer: blanks, comments, #define lines, counts in brackets; parser: typedef / struct / union / enum / flag with declarators, multi-word type names, inline and anonymous members, self references; constant folding of counts and enum numbering through ExprGrammar / EnumSpec): TLC derives the declarations from every rendered text and they must equal the abstract list the rendering started from; 118 definition texts written by people (the string literals of the repository's tests) and filler re-renderings of them are judged by the grammar alone.",
            "the regex scanner itself is exercised as a black box through the renderings; insertion points exclude the inside of [...], the name-[ boundary and #define lines (the property's quantifier); line breaks inside an enum member are finding F12 (listed)."),
    "C14": ("SessionSpec.tla gives instances their meaning (Zero, Init, UpdPath) with nothing else as state; Trace_Session is a stateful trace specification whose state is the set of live instances: after EVERY event (Construct, Parse, failed Parse, SetField at nested paths / array elements / bit-fields, Dump, Eq, Bool, Load / SetEndian / AddType on another cstruct object) the harness logs the projection of ALL live instances of three cstruct objects and TLC checks it equals the specification state - an action changes its target and nothing else; MC_Session proves Independent / FreshIsZero on the specification.",
            "histories are random (14 / 30 events); the frame condition is checked on the instances the harness keeps alive."),
    "C15": ("MC_Threads: all interleavings of 2 (3) threads evaluating one shared Expression at source-line granularity - Isolated and BenignShared hold with call-local stacks, and TLC returns the single-preemption counter-example with the pre-fix layout (negative control in every run). Real threads are then run under a deterministic scheduler (sys.settrace line events, semaphores): every single-preemption schedule of each thread, sampled double preemptions and 3-thread rotations over random definitions with expressions, bit-fields, unions, pointers and arrays; every distinct per-thread outcome is validated by TLC against Decode, i.e. the solo result.",
            "bounded preemptions (1, sampled 2); line granularity (not bytecode); CPython with the GIL."),
    "C16": ("PtrSpec.tla: Deref = Decode(target, content, addr) (char -> NUL-terminated), null / no stream -> dedicated error, Arith yields a pointer of the same type on the same stream, Dump = address; MC_Ptr proves Width, Unsigned, NullIsNull, DerefIsParse, StreamStays, DumpIsAddr over widths 1/2/4/8 x byte order x 5 targets x 7 addresses; Trace_Ptr is a stateful trace specification (stream position, parsed value) judging histories Parse / Deref (twice) / Arith+Deref / Dump / Default on real structures with planted addresses, both readers.",
            "addresses are guarded to small integers for arithmetic in TLC."),
    "C17": ("Same trace specification as C14 with the clauses eq / hash / bool / construct / dump: equality is same class (per cstruct object) and field-wise (ValEq), equal instances hash equally when hashable, bool = Truthy of the Python value, positional / keyword construction = Init = assignment on Zero; MC_Session proves InitIsAssign, EqIsFieldwise and AssignLocal (a single assignment changes only bits of that field's data mask in the dump) on the specification; the random definitions include a twin class with the same field count and other names to stress the cached code templates.",
            "NaN floats excluded; -0.0 == 0.0 follows Python."),
    "C18": ("MC_Layout is the layout loop of the implementation as a state machine (offset, alignment, bits_type, bits_field_offset, bits_remaining; fields keep offsets of earlier commits) run over every structure of the bounded universe x EVERY split of its field list into commits, proved equal to CLayout after each commit (LoopIsCRule, NoStaleOffset); real classes are built with add_field / start_update batches on compiled or interpreted empty classes and with forward references to themselves; layout after every commit, final __compiled__, parse and dump are judged by Trace_Codec against the one-shot class and Decode.",
            "field types of the incremental class are taken from the one-shot class."),
    "C19": ("Hexdump.tla states Lossless / Cosmetic and pack/unpack/swap on limb integers; MC_Hexdump is the generator loop of utils.py as a state machine (i, j, remaining, active, palette) for all data lengths 0..34 x palettes of <= 3 entries with lengths {0,1,15,16,17}; real output (string and generator form, prefixes, offsets, palettes; dumpstruct in both forms; pack/unpack/p8..u64/swap incl. values that do not fit) is tokenised and judged by Trace_Utils.",
            "dumpstruct(T, data) is driven with len(data) = len(T) only."),
    "C20": ("Trace_Stub computes StubDecls from the abstract declaration list (classes with bases, folded fields with hint trees that name the field's type, enum members, aliases resolved through TypeTable, constants, nothing else at top level) and compares it with the ast projection of the real stub text; syntactic validity is the `valid` flag of that projection. Names of array / pointer types (typedef T a[4]; typedef T *p; aliases of them) are expected as aliases of the generic hint (F62). A field named like a Python keyword still yields invalid Python: finding F15 (listed).",
            "syntactic validity is decided by ast.parse in the projection; hints are compared up to module prefixes and generated anonymous names."),
}


def main():
    props = [json.loads(l)["id"] for l in open(os.path.join(VERIF, "properties.jsonl"))]
    checks = []
    for p in props:
        if p not in CHECKS:
            continue
        text, note = LEVEL[p]
        checks.append({
            "property_id": p,
            "quick_cmd": f"./check {p} --tier quick",
            "thorough_cmd": f"./check {p} --tier thorough",
            "evidence_file": f"/verif/evidence/{p}.json",
            "replay_cmd_template": f"./check {p} --replay {{path}}",
            "engine": "tlc",
            "level_claimed": {"category": "model_checking", "text": text, "design_ref": f"DESIGN.md section 4 ({p})"},
            "level_note": note,
            "technique": "explicit TLA+ specification: TLC bounded model checking + TLC trace validation of recorded executions of the real library",
        })
    m = {
        "version": 1,
        "setup_cmd": "./setup.sh",
        "hooks": {"guard": "DISSECT_CSTRUCT_VERIF",
                  "enable": "no source hooks: observation goes through the public API, recording / faulty stream objects and sys.settrace",
                  "baseline_off_cmd": "cd /repo && /venv/bin/python -m pytest -ra -q -p no:cacheprovider --timeout=900",
                  "source_commits": [], "add_only": True},
        "engines": [{"name": "tlc", "path": "/verif/spec /verif/mc /verif/trace /verif/gen /verif/harness",
                     "serves_properties": sorted(CHECKS),
                     "kind_free_text": "TLA+ specification (spec/*.tla), bounded models (mc/MC_*.tla), trace specifications (trace/Trace_*.tla), behaviour generators (gen/Gen_*.tla) run by TLC 1.8; Python harness drives the real library and converts between real and abstract values"}],
        "checks": checks,
        "notes": "See DESIGN.md. Known findings: known_findings.json. Exit 2 = machinery failure (never a verdict).",
        "not_applicable": [{"property_id": p, "reason": "check not built yet (work in progress; see DESIGN.md section 9)"}
                           for p in props if p not in CHECKS],
    }
    with open(os.path.join(VERIF, "MANIFEST.json"), "w") as fh:
        json.dump(m, fh, indent=1)
    print("checks:", [c["property_id"] for c in checks], "not_applicable:", len(m["not_applicable"]))


if __name__ == "__main__":
    main()
