"""Show what the specification says about recorded scenarios: python -m harness.debug <ndjson file> [id ...]"""
import json
import os
import sys
import tempfile

from harness import tlc


def explain(records, module="Debug_Codec"):
    with tempfile.NamedTemporaryFile("w", suffix=".ndjson", delete=False) as fh:
        for r in records:
            fh.write(json.dumps(r) + "\n")
    try:
        res = tlc.run(os.path.join(tlc.VERIF, "trace", module + ".tla"), os.path.join(tlc.VERIF, "trace", module + ".cfg"),
                      env={"TRACE_FILE": fh.name})
    finally:
        os.unlink(fh.name)
    keep = False
    out = []
    for line in res.out.splitlines():
        if line.startswith("<<") or line.startswith('<< "'):
            keep = True
        if line.startswith(("Model checking", "Error", "The ", "Finished", "Starting", "Computing")):
            keep = line.startswith("Error")
        if keep:
            out.append(line)
    return "\n".join(out)


if __name__ == "__main__":
    recs = [json.loads(l) for l in open(sys.argv[1])]
    ids = {int(x) for x in sys.argv[2:]}
    print(explain([r for r in recs if not ids or r["id"] in ids]))
