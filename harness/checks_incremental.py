"""C18: structures built field by field / in batches / with a forward reference to themselves equal the one-shot definition."""
from __future__ import annotations

import random

from harness import absyn as A
from harness import codec
from harness.checks_codec import adjudicate, run_mc

CFG = {"union": True, "eof": False, "depth": 1, "max_fields": 5}


class _CallerError(Exception):
    pass


def build_incremental(cs, One, name, batches, mode, compiled, rnd):
    from dissect.cstruct import compiler

    Inc = cs._make_struct(name, [], align=mode["align"])
    if compiled:
        Inc = compiler.compile(Inc)
    layouts, cuts, n = [], [], 0
    for batch in batches:
        fields = One.__fields__[n:n + batch]
        if batch == 1 and rnd.random() < 0.6:
            f = fields[0]
            Inc.add_field(f.name, f.type, bits=f.bits)
        elif rnd.random() < 0.25:
            # the caller's own code fails inside the batch, after the fields were added: what was added is committed all the same
            # (nothing of the state before the batch may survive next to the new fields; seed S108)
            try:
                with Inc.start_update():
                    for f in fields:
                        Inc.add_field(f.name, f.type, bits=f.bits)
                    raise _CallerError
            except _CallerError:
                pass
        else:
            with Inc.start_update():
                for f in fields:
                    Inc.add_field(f.name, f.type, bits=f.bits)
        n += batch
        cuts.append(n)
        layouts.append(A.project_layout(Inc))
    return Inc, cuts, layouts


def splits(n, rnd):
    out, left = [], n
    while left:
        b = rnd.randrange(1, left + 1) if rnd.random() < 0.6 else 1
        out.append(b)
        left -= b
    return out


def incremental_records(rnd, first_id, selfref=False, padnames=False):
    mode = codec.gen_mode(rnd)
    g = A.Gen(rnd, mode, CFG)
    while True:
        t = g.struct()
        if not A.has_dup_names(t):
            break
    if padnames:
        # the padding name `_` may repeat (it is the one name that may): uint16 magic; uint8 _; uint8 flags; uint8 _; uint32 length;
        # parsed from constant bytes, so that what the one attribute `_` shows is the value of every `_` member (seed S98)
        pad = A.t_int(rnd.choice(["uint8", "uint8", "uint16"]))
        fields, k = [], 0
        for i in range(rnd.randrange(3, 7)):
            if i % 2 == 1 or rnd.random() < 0.2:
                fields.append(A.field("_", pad))
            else:
                fields.append(A.field(f"m{k}", A.t_int(rnd.choice(["uint8", "uint16", "uint32", "int24"]))))
                k += 1
        if sum(1 for f in fields if f["name"] == "_") < 2:
            fields.append(A.field("_", pad))
        t = A.t_struct(t["name"], fields)
        g.consts = {}
    if selfref:
        # struct s { ...; s *next; ... }: the name is pre-registered, the fields are committed afterwards
        pos = rnd.randrange(len(t["fields"]) + 1)
        t["fields"].insert(pos, A.field("next", dict(A.t_ptr(A.t_void()), selfname=t["name"])))
    consts = dict(g.consts)
    defs = A.render(t, consts)
    if selfref and rnd.random() < 0.5:
        # the C idiom: typedef struct tag { ...; struct tag *next; } name;   (the tag is known while the fields are parsed)
        head = f"struct {t['name']} {{"
        i = defs.rindex(head)
        body = defs[i:].replace(f" {t['name']} *next;", f" struct {t['name']} *next;")
        assert body.rstrip().endswith("};")
        defs = defs[:i] + "typedef " + body.rstrip()[:-1] + f" {t['name']}_t;"
    compiled = rnd.random() < 0.5
    out = []
    scn = {"type": t, "mode": mode, "consts": consts, "defs": defs}
    start = codec.start_for(rnd, scn)
    datas = [codec.gen_input(rnd, start, maxlen=80), bytes(start) + bytes(range(1, 81))]
    if padnames:
        datas = [bytes(start) + bytes([c]) * 60 for c in (0x55, 0x00)]
    try:
        cs = codec.load(defs, mode, compiled)
        One = getattr(cs, t["name"])
    except Exception as e:  # noqa: BLE001
        return [{"id": first_id, "kind": "parse", "type": t, "mode": mode, "defs": defs, "req_compiled": compiled,
                 "loaderr": f"{type(e).__name__}: {e}"[:300]}]
    lay_one = A.project_layout(One)
    for data in datas:
        out.append({"id": 0, "kind": "parse", "type": t, "mode": mode, "consts": consts or {"_": 0}, "input": list(data), "start": start,
                    "defs": defs, "req_compiled": compiled, "tag": "one-shot",
                    "obs": {"layout": lay_one, "res": codec.observe_parse(One, t, data, start), "compiled": bool(One.__compiled__)} if compiled else
                           {"layout": lay_one, "res": codec.observe_parse(One, t, data, start)}})
    if not selfref:
        batches = splits(len(t["fields"]), rnd)
        tinc = dict(t, name="Inc")
        try:
            Inc, cuts, layouts = build_incremental(cs, One, "Inc", batches, mode, compiled, rnd)
        except Exception as e:  # noqa: BLE001
            out.append({"id": 0, "kind": "parse", "type": tinc, "mode": mode, "defs": defs + f"  /* incremental {batches} */", "req_compiled": compiled,
                        "loaderr": f"incremental build: {type(e).__name__}: {e}"[:300]})
            return out
        out.append({"id": 0, "kind": "commits", "type": tinc, "mode": mode, "consts": consts or {"_": 0}, "cuts": cuts, "layouts": layouts,
                    "compiled": bool(Inc.__compiled__), "req_compiled": compiled, "defs": defs + f"  /* incremental {batches} */",
                    "input": [], "start": 0, "tag": "commits"})
        for data in datas:
            obs = {"layout": A.project_layout(Inc), "res": codec.observe_parse(Inc, tinc, data, start),
                   "layout2": lay_one, "res2": codec.observe_parse(One, tinc, data, start, with_dump=False)}
            # the one-shot class projects with its own name: compare values up to the class name
            obs["res2"]["v"] = rename(obs["res2"]["v"], t["name"], "Inc")
            out.append({"id": 0, "kind": "parse", "type": tinc, "mode": mode, "consts": consts or {"_": 0}, "input": list(data), "start": start,
                        "defs": defs + f"  /* incremental {batches} */", "req_compiled": compiled, "tag": "incremental", "obs": obs})
    return out


def selfarray_records(rnd):
    """struct SA { ...; uint8 n; SA kids[n]; }: a forward reference to itself through an ARRAY member (finding F63).  The
    specification's types are finite trees, so the scenario is judged through a two-level unfolding (the children's own `kids`
    is an array of bytes) on inputs whose children have n = 0 - there the unfolding is exact."""
    mode = dict(codec.gen_mode(rnd), align=rnd.random() < 0.7)
    pre = [A.field(f"m{i}", A.t_int(rnd.choice(["uint8", "uint16", "uint32", "uint64", "int24"]))) for i in range(rnd.randrange(0, 3))]
    u8 = A.t_int("uint8")
    cnt = {"k": "id", "name": "n"}
    dims = rnd.choice([1, 1, 2])

    # ... and a member added LATER, with a larger alignment than anything the structure had when `kids` was declared: the array of
    # itself follows (seed S138)
    later = A.t_int(rnd.choice(["uint64", "uint32", "uint64"])) if rnd.random() < 0.5 else None
    if later:
        pre = [A.field(f"m{i}", A.t_int(rnd.choice(["uint8", "uint16"]))) for i in range(rnd.randrange(0, 3))]

    def level(kid_elem):
        arr = A.t_arr(kid_elem, A.L_expr(cnt)) if dims == 1 else A.t_arr(A.t_arr(kid_elem, A.L_fixed(2)), A.L_expr(cnt))
        return A.t_struct("SA", [dict(f) for f in pre] + [A.field("n", u8), A.field("kids", arr)] + ([A.field("z", later)] if later else []))

    twin = level(level(u8))
    body = " ".join(f"{f['type']['name']} {f['name']};" for f in pre)
    defs = f"struct SA {{ {body} uint8 n; SA kids[n]{'[2]' if dims == 2 else ''}; }};"
    compiled = rnd.random() < 0.5
    out = []
    try:
        cs = codec.load(defs, mode, compiled)
        T = cs.SA
        if later:
            T.add_field("z", cs.resolve(later["name"]))
            defs += f"  /* + add_field z {later['name']} */"
    except Exception as e:  # noqa: BLE001
        return [{"id": 0, "kind": "parse", "type": twin, "mode": mode, "defs": defs, "req_compiled": compiled, "loaderr": f"{type(e).__name__}: {e}"[:300]}]
    noff = T.fields["n"].offset
    for top_n in (0, 1, 2):
        data = bytearray(160)
        data[noff] = top_n
        for i in range(noff):                     # the parent's own members carry data, the children are all zero (their n is 0)
            data[i] = rnd.randrange(1, 256)
        obs = {"layout": A.project_layout(T), "res": codec.observe_parse(T, twin, bytes(data), 0)}
        out.append({"id": 0, "kind": "parse", "type": twin, "mode": mode, "consts": {"_": 0}, "input": list(data), "start": 0,
                    "defs": defs, "req_compiled": compiled, "tag": "selfarr", "obs": obs})
    return out


def rename(v, old, new):
    if isinstance(v, dict):
        if v.get("k") == "struct" and v.get("cls") in (old, "Inc"):
            v = dict(v, cls=new)
        return {k: (rename(x, old, new) if k != "cls" else x) for k, x in v.items()}
    if isinstance(v, list):
        return [rename(x, old, new) for x in v]
    return v


class IncrementalCheck:
    prop = "C18"

    def run(self, rep):
        thorough = rep.tier == "thorough"
        rnd = random.Random(rep.seed)
        rep.rule = ("E1: MC_Layout - the layout loop as a state machine over every structure of the bounded universe x EVERY split of its "
                    "field list into batches, fields keeping the offsets of earlier commits; E2: random structures (<= 5 fields incl. "
                    "bit-field runs, arrays, nested structs/unions, dynamic members) built with add_field (committing each) / "
                    "start_update batches on a pre-compiled or interpreted empty class: layout after EVERY commit, final __compiled__, "
                    "parse (ramp + random input) and dump of the incremental class vs the one-shot class vs Decode; structures with a "
                    "pointer to themselves (pre-registered name, fields committed afterwards); non-trivial = an incremental build with "
                    ">= 2 commits or a self-referential structure")
        run_mc(rep, "MC_Layout", A.universe(2))
        recs = []
        for _ in range(5000 if thorough else 350):
            recs += incremental_records(rnd, 0, selfref=False)
        for _ in range(1500 if thorough else 100):
            recs += incremental_records(rnd, 0, selfref=True)
        for _ in range(600 if thorough else 40):
            recs += incremental_records(rnd, 0, padnames=True)
        for _ in range(600 if thorough else 60):
            recs += selfarray_records(rnd)

        def nontrivial(r):
            return (r.get("tag") in ("incremental", "commits") and r["defs"].count(",") >= 1) or "*next" in r["defs"] or r.get("tag") == "selfarr"
        adjudicate(rep, recs, {"stale-layout", "compilable", "value", "pos", "sizes", "layout", "status", "dump", "reparse", "equiv", "equiv-layout", "load"},
                   nontrivial=nontrivial)

    def replay(self, path):
        print("replay: re-run ./check C18 with the seed in the file name")
        return 0
