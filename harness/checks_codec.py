"""Checks of the codec family (C01-C09): E1 = MC_* models over the bounded universe, E2 = recorded executions of
the real library judged by Trace_Codec."""
from __future__ import annotations

import json
import os
import random
import tempfile

from harness import absyn, codec, tlc
from harness.framework import MachineryError

MC = os.path.join(tlc.VERIF, "mc")


def write_universe(cases):
    fd, path = tempfile.mkstemp(prefix="universe_", suffix=".ndjson")
    with os.fdopen(fd, "w") as fh:
        for c in cases:
            fh.write(json.dumps(c, separators=(",", ":")) + "\n")
    return path


COVERAGE_OK = {"MC_Codec", "MC_Layout", "MC_Cuts", "MC_Expr", "MC_Hexdump", "MC_Enum", "MC_TypeTable", "MC_Threads", "MC_Ptr"}
# models on which -coverage 1 is affordable (it exhausts memory / time on MC_Plan, MC_Bits, MC_Scalar, MC_Union, MC_Session)


def run_mc(rep, module, cases=None, env=None, workers=16, cfg=None, heap="16g", timeout=3000, coverage=None):
    path = write_universe(cases) if cases is not None else None
    try:
        e = dict(env or {})
        if path:
            e["UNIVERSE_FILE"] = path
        coverage = (module in COVERAGE_OK and rep.tier == "quick") if coverage is None else coverage
        res = tlc.run(os.path.join(MC, module + ".tla"), os.path.join(MC, (cfg or module) + ".cfg"), env=e, workers=workers,
                      heap=heap, timeout=timeout, extra=["-coverage", "1"] if coverage else [])
    finally:
        if path:
            os.unlink(path)
    rep.add_mc(module if not cfg else cfg, res)
    if coverage:
        cov = {a: n[1] for a, n in res.coverage().items() if a != "Init"}
        rep.mc_runs[-1]["action_counts"] = cov
        dead = sorted(a for a, n in cov.items() if n == 0)
        if dead:
            # an action of the model that is never taken means the invariants about it were never exercised
            raise MachineryError(f"vacuous model run {cfg or module}: action(s) never taken: {dead}")
    return res


def repro_snippet(rec):
    mode = rec["mode"]
    if rec.get("kind") == "readers":
        return f"# {rec['defs']}  (add_field(name, type, offset=...) in the order given), both compiled=True and compiled=False; input bytes({rec.get('input', [])!r}) at {rec.get('start', 0)}"
    return "\n".join([
        "import io",
        "from dissect.cstruct import cstruct",
        f"cs = cstruct(endian={codec.spelled(mode)!r}, pointer={absyn.PTRTYPES[mode['ptr']]!r})",
        f"cs.load({rec['defs']!r}, compiled={rec.get('req_compiled', False)!r}, align={mode['align']!r})",
        f"s = io.BytesIO(bytes({rec.get('input', [])!r})); s.seek({rec.get('start', 0)})",
        f"v = cs.{rec['type']['name']}.read(s); print(v, s.tell()); print(v.dumps().hex())",
    ])


CHUNK = 4000      # records judged per stage in the thorough tier


def in_child(fn):
    """Run fn() in a forked child and return its (picklable) result.

    The library keeps the default values of a structure's fields in the constants of a generated code object; code objects are
    not tracked by the garbage collector, so every cstruct object that ever defined a structure stays alive (class -> __init__ ->
    code -> default instance -> its type -> cstruct -> class).  A thorough run creates ~100 000 of them (13 GB).  Each stage
    therefore drives the library in a child process, which takes that memory with it when it exits; the parent only sees records."""
    import pickle
    import traceback

    fd, path = tempfile.mkstemp(prefix="stage_", suffix=".pkl")
    os.close(fd)
    pid = os.fork()
    if pid == 0:
        code = 0
        try:
            with open(path, "wb") as fh:
                pickle.dump(("ok", fn()), fh, protocol=pickle.HIGHEST_PROTOCOL)
        except BaseException:  # noqa: BLE001 - reported by the parent
            code = 1
            try:
                with open(path, "wb") as fh:
                    pickle.dump(("error", traceback.format_exc()), fh)
            except BaseException:  # noqa: BLE001
                pass
        finally:
            os._exit(code)
    try:
        _, status = os.waitpid(pid, 0)
        try:
            with open(path, "rb") as fh:
                kind, val = pickle.load(fh)
        except Exception as e:  # noqa: BLE001
            raise MachineryError(f"scenario stage died (wait status {status}): {e}")
    finally:
        try:
            os.unlink(path)
        except OSError:
            pass
    if kind != "ok":
        raise MachineryError(f"scenario stage failed in the child process:\n{val}")
    return val


def slim(rec):
    """A recorded scenario without the bulky abstract type (for evidence samples)."""
    return {"defs": rec["defs"], "mode": rec["mode"], "start": rec.get("start"), "input_hex": bytes(rec.get("input", [])).hex(),
            "compiled": rec.get("req_compiled"), "status": rec.get("obs", {}).get("res", {}).get("status")}


def adjudicate(rep, records, owned, *, trace_module="Trace_Codec", nontrivial=None, findings=None):
    """Validate records with TLC and sort the verdicts into accepted / known finding / violation."""
    if os.environ.get("VERIF_MEMTRACE"):
        import resource
        import sys
        print(f"[mem] adjudicate({len(records)} records) maxrss={resource.getrusage(resource.RUSAGE_SELF).ru_maxrss >> 10} MB", file=sys.stderr, flush=True)
    rep.evaluations += len(records)
    ok = []
    for r in records:
        if "loaderr" in r:
            # a definition that does not load is judged by the specification too: it must be ill-formed (straddling bit-field)
            r = {"id": 0, "kind": "load", "type": r["type"], "mode": r["mode"], "consts": r.get("consts") or {"_": 0}, "defs": r["defs"],
                 "req_compiled": r.get("req_compiled"), "loaded": False, "exc": r["loaderr"], "input": [], "start": 0}
        ok.append(r)
    for i, r in enumerate(ok):          # ids must be unique within a batch
        r["id"] = i
    verdicts, stats = tlc.validate_batch(trace_module, ok)
    rep.traces += len(verdicts)
    corruption_selftest(rep, ok, verdicts, trace_module)
    rep.extra.setdefault("trace_tlc_states", 0)
    rep.extra["trace_tlc_states"] += stats["tlc_states"]
    for r in ok:
        v = verdicts[r["id"]]
        spec_bugs = [c for c in v if c.startswith("SPECBUG")]
        if spec_bugs:
            raise MachineryError(f"the specification contradicts itself on a recorded scenario: {spec_bugs} :: {r['defs']} "
                                 f"mode={r['mode']} start={r.get('start')} input={bytes(r.get('input', [])).hex()}")
        for c in v:
            if c.startswith("DRIFT"):
                rep.count(c)
                if c not in rep.extra.setdefault("drift_examples", {}):
                    rep.extra["drift_examples"][c] = r["defs"][:200]
        skips = [c for c in v if c.startswith("SKIP")]
        for s in skips:
            rep.count(s)
        if skips:
            continue
        failed = [c for c in v if c in owned]
        tags = [c for c in v if c.startswith("KF:")]
        if r["kind"] == "load":
            if failed:
                rep.violation(f"definition {'was accepted although a bit-field straddles its unit' if r['loaded'] else 'could not be loaded: ' + r.get('exc', '')} :: {r['defs'][:300]} mode={r['mode']}",
                              {"kind": "load", "record": r, "python": repro_snippet(r)})
            else:
                rep.count("ill-formed definition correctly rejected" if not r["loaded"] else "load ok")
            continue
        if nontrivial is None or nontrivial(r):
            rep.nontrivial_case([r["defs"], r["mode"], r.get("input"), r.get("start"), r.get("req_compiled"), r.get("tag")])
        rep.sample(slim(r))
        if not failed:
            continue
        fid = None
        for fn in (findings or []) + [finding_f16]:
            fid = fn(r, v, failed)
            if fid:
                break
        if fid:
            rep.known_hit(fid, f"{r['defs'][:160]!r} mode={r['mode']}")
        else:
            rep.violation(f"clauses {failed} rejected (all: {v}) :: {r['defs'][:300]} mode={r['mode']} start={r.get('start')} "
                          f"compiled={r.get('req_compiled')} input={bytes(r.get('input', [])).hex()[:120]}",
                          {"kind": "trace", "clauses": failed, "all_clauses": v, "record": r, "python": repro_snippet(r)})
    rep.extra["planned_structures"] = planned = rep.extra.get("planned_structures", 0) + sum(1 for r in ok if "plan" in r.get("obs", {}))
    drift = rep.exclusions.get("DRIFT:plan", 0)
    if planned and drift > planned // 4 and not any("PlanSpec predicts" in x for x in rep.notes):
        rep.notes.append(f"the generated source of {drift} of {planned} compiled structures does not have the shape PlanSpec predicts: the "
                         "translation check (source text -> plan) is not binding for them (behaviour is still compared with Decode)")


def corruption_selftest(rep, ok, verdicts, trace_module):
    """Vacuity guard of the trace specification (run once per check): accepted records are copied with ONE observed fact changed
    - the stream position after the parse, or one integer leaf of the parsed value - and judged again; every copy must be rejected."""
    import copy

    if rep.extra.get("corruption_selftest") or trace_module != "Trace_Codec":
        return

    def first_int(v):
        if isinstance(v, dict):
            if v.get("k") == "int" and "mag" in v:
                return v
            for x in v.values():
                r = first_int(x)
                if r is not None:
                    return r
        elif isinstance(v, list):
            for x in v:
                r = first_int(x)
                if r is not None:
                    return r
        return None

    # (an input that ends inside trailing padding is judged laxly - value or EOFError, position open - so only records whose
    # parse stopped before the end of the input are used)
    picked = [r for r in ok if r.get("kind") == "parse" and not verdicts.get(r["id"]) and r.get("obs", {}).get("res", {}).get("status") == "ok"
              and r["obs"]["res"]["pos"] < len(r.get("input", []))][:8]
    bad = []
    for r in picked:
        c = copy.deepcopy(r)
        c["obs"]["res"]["pos"] += 1
        bad.append(("pos", c))
        c = copy.deepcopy(r)
        leaf = first_int(c["obs"]["res"]["v"])
        if leaf is not None:
            leaf["mag"] = [1] if not leaf["mag"] else [leaf["mag"][0] ^ 1 or 2] + leaf["mag"][1:]
            bad.append(("value", c))
    if not bad:
        return
    for i, (_, c) in enumerate(bad):
        c["id"] = i
    v2, _ = tlc.validate_batch(trace_module, [c for _, c in bad])
    silent = [what for i, (what, c) in enumerate(bad) if not [x for x in v2[i] if not x.startswith(("DRIFT", "SKIP"))]]
    if silent:
        raise MachineryError(f"corruption self-test: {len(silent)} of {len(bad)} records with a changed {set(silent)} were ACCEPTED by {trace_module}: "
                             "the trace specification does not constrain what it is given")
    rep.extra["corruption_selftest"] = f"{len(bad)} accepted records re-judged with one observed fact changed (position / one integer leaf): all rejected"


def finding_f16(r, verdict, failed):
    """F16: the observed dump is exactly what writing a union through one member produces."""
    if "KF:F16" in verdict and set(failed) <= {"dump", "fidelity", "reparse"}:
        return "F16"
    return None


# ----------------------------------------------------------------------------------------- scenario builders
def scenarios_from_universe(cases, rnd, *, both=False, compiled=None, first_id=0, inputs=("ramp", "ff", "x80", "zero", "rand")):
    out = []
    rid = first_id
    for c in cases:
        scn = {"type": c["type"], "mode": c["mode"], "consts": {k: v for k, v in c["consts"].items() if k != "_"},
               "defs": absyn.render(c["type"], {k: v for k, v in c["consts"].items() if k != "_"})}
        for kind in inputs:
            start = codec.start_for(rnd, scn)
            n = 40
            if kind == "ramp":
                body = bytes(range(1, n + 1))
            elif kind == "ff":
                body = b"\xff" * n
            elif kind == "x80":
                body = b"\x80" * n
            elif kind == "zero":
                body = b"\x00" * n
            else:
                body = bytes(rnd.choice([0, 1, 2, 3, 0x7F, 0x80, 0xFF, rnd.randrange(256)]) for _ in range(n))
            data = bytes(rnd.randrange(256) for _ in range(start)) + body
            comp = (rnd.random() < 0.5) if compiled is None else compiled
            out.append(codec.parse_record(rid, scn, data, start, comp, both=both))
            rid += 1
    return out


class CodecCheck:
    """A property decided by MC_Codec-style models + Trace_Codec verdicts on the clauses it owns."""

    def __init__(self, prop, owned, *, rule, quick_n, thorough_n, cfg=None, both=False, compiled=None, universe_fields=(1, 2),
                 mc_models=("MC_Codec",), extra=None, nontrivial=None, assumptions=(), quick_pairs=200):
        self.prop, self.owned, self.rule = prop, set(owned), rule
        self.quick_n, self.thorough_n = quick_n, thorough_n
        self.cfg, self.both, self.compiled = cfg, both, compiled
        self.universe_fields = universe_fields
        self.quick_pairs = quick_pairs
        self.mc_models = mc_models
        self.extra = extra
        self.nontrivial = nontrivial or (lambda r: r.get("obs", {}).get("res", {}).get("status") == "ok")
        self.assumptions = list(assumptions)

    def run(self, rep):
        thorough = rep.tier == "thorough"
        rnd = random.Random(rep.seed)
        rep.rule = self.rule
        rep.assumptions += self.assumptions
        # E1: theorems of the specification over the bounded universe
        ucases = absyn.universe(self.universe_fields[1] if thorough else self.universe_fields[0])
        for m in self.mc_models:
            run_mc(rep, m, ucases)
        if "MC_Reader" in self.mc_models:
            # negative control: the reader that aligns on the absolute stream position (before F35) must violate ReaderIsDecode
            p = write_universe(ucases if thorough else ucases[:120])
            try:
                neg = tlc.run(os.path.join(MC, "MC_Reader.tla"), os.path.join(MC, "MC_Reader_neg.cfg"), env={"UNIVERSE_FILE": p}, workers=16, heap="16g")
            finally:
                os.unlink(p)
            if "ReaderIsDecode" not in neg.violated:
                raise MachineryError("negative control MC_Reader_neg did not violate ReaderIsDecode: the model is vacuous")
            rep.extra["negative_control_reader"] = "MC_Reader_neg (alignment from the absolute stream position, finding F35) violates ReaderIsDecode as expected"
        if "MC_Writer" in self.mc_models and thorough:
            # negative control: the writer of seeded change S03 (no alignment for bit-fields at a dynamic offset) must violate WriterIsEnc
            p = write_universe(ucases)
            try:
                neg = tlc.run(os.path.join(MC, "MC_Writer.tla"), os.path.join(MC, "MC_Writer_neg.cfg"), env={"UNIVERSE_FILE": p}, workers=16, heap="16g")
            finally:
                os.unlink(p)
            if "WriterIsEnc" not in neg.violated:
                raise MachineryError("negative control MC_Writer_neg did not violate WriterIsEnc: the model is vacuous")
            rep.extra["negative_control_writer"] = "MC_Writer_neg (no alignment for bit-fields at a dynamic offset) violates WriterIsEnc as expected"
        # E2 (a): the same universe through the real library
        if thorough:
            sub = ucases
        else:
            # quick: the 1-entry universe sampled, plus a sample of the 2-entry universe (neighbour effects: alignment gaps after
            # bit-field runs, nested structs, dynamic members)
            two = absyn.universe(2)
            sub = rnd.sample(ucases, min(len(ucases), 120)) + rnd.sample(two, self.quick_pairs)
        if thorough:
            # judged in stages (see below): CHUNK records at a time
            recs, per = [], max(1, CHUNK // 5)
            for a in range(0, len(sub), per):
                r2 = random.Random(rnd.randrange(1 << 30))
                adjudicate(rep, in_child(lambda: scenarios_from_universe(sub[a:a + per], r2, both=self.both, compiled=self.compiled,  # noqa: B023
                                                                         inputs=("ramp", "ff", "x80", "zero", "rand"))),
                           self.owned, nontrivial=self.nontrivial)
        else:
            recs = scenarios_from_universe(sub, rnd, both=self.both, compiled=self.compiled, inputs=("ramp", "rand"))
        # E2 (b): random definitions far beyond the bounds
        n = self.thorough_n if thorough else self.quick_n
        if n <= CHUNK:
            recs += codec.random_batch(n, rnd.randrange(1 << 30), self.cfg, compiled=self.compiled, both=self.both, first_id=len(recs))
            if self.extra:
                recs += self.extra(rep, rnd, len(recs))
            adjudicate(rep, recs, self.owned, nontrivial=self.nontrivial)
            return
        # thorough: judged in stages, so that the harness never holds more than one stage's records (a whole thorough run held ~10 GB)
        base, recs = 5 * len(sub), None
        left = n
        while left > 0:
            k = min(left, CHUNK)
            sd = rnd.randrange(1 << 30)
            chunk = in_child(lambda: codec.random_batch(k, sd, self.cfg, compiled=self.compiled, both=self.both, first_id=base))  # noqa: B023
            adjudicate(rep, chunk, self.owned, nontrivial=self.nontrivial)
            base, left, chunk = base + k, left - k, None
        if self.extra:
            r2 = random.Random(rnd.randrange(1 << 30))
            adjudicate(rep, in_child(lambda: self.extra(rep, r2, base)), self.owned, nontrivial=self.nontrivial)

    def replay(self, path):
        """Re-run a recorded violation on the current tree and judge it again."""
        from harness.framework import Report

        with open(path) as fh:
            rp = json.load(fh)["replay"]
        rec = rp["record"]
        scn = {"type": rec["type"], "mode": rec["mode"], "consts": {k: v for k, v in rec.get("consts", {}).items() if k != "_"},
               "defs": rec["defs"]}
        if rec.get("kind") == "value":
            new = codec.value_record(0, scn, rec["v"], rec["req_compiled"], rec.get("tag", "value"))
        else:
            new = codec.parse_record(0, scn, bytes(rec["input"]), rec["start"], rec["req_compiled"], both="res2" in rec.get("obs", {}))
            if "obs" in new and "obs" in rec:
                new = codec.enrich(new, sizeof="sizeof" in rec["obs"], forms="forms" in rec["obs"])
        rep = Report(self.prop, "quick", 0)
        rep.rule = "replay of " + path
        adjudicate(rep, [new], self.owned)
        print("replay verdict:", "VIOLATION reproduced" if rep.violations else "accepted on the current tree")
        for s, _ in rep.violations:
            print(" ", s[:600])
        return 1 if rep.violations else 0
