"""Abstract syntax shared by the TLA+ specification and the harness.

* abstract *types* (JSON-able dicts, see spec/Layout.tla) and their rendering to definition text,
* abstract *values* (see spec/Codec.tla) and the total projection of real Python values onto them,
* a seeded random generator of definitions (the `U_rand` universe of DESIGN.md section 3).
"""
from __future__ import annotations

import math
import struct as _struct

INTS = {
    "uint8": (1, False, 1), "int8": (1, True, 1), "uint16": (2, False, 2), "int16": (2, True, 2),
    "uint32": (4, False, 4), "int32": (4, True, 4), "uint64": (8, False, 8), "int64": (8, True, 8),
    "uint24": (3, False, 4), "int24": (3, True, 4), "uint48": (6, False, 8), "int48": (6, True, 8),
    "int128": (16, True, 16), "uint128": (16, False, 16),
}
FLOATS = {"float16": 2, "float": 4, "double": 8}
PTRTYPES = {1: "uint8", 2: "uint16", 4: "uint32", 8: "uint64", 3: "uint24", 6: "uint48", 16: "uint128"}


# ---------------------------------------------------------------------------------------------- types
def t_int(name):
    s, sg, a = INTS[name]
    return {"k": "int", "name": name, "size": s, "signed": sg, "align": a}


def t_float(name):
    return {"k": "float", "name": name, "size": FLOATS[name]}


def t_char():
    return {"k": "char"}


def t_wchar():
    return {"k": "wchar"}


def t_void():
    return {"k": "void"}


def t_leb(signed):
    return {"k": "leb", "signed": signed}


def t_enum(name, base, members, flag=False):
    """members: list of (name, value) with the numeric values already resolved."""
    return {"k": "enum", "name": name, "flag": flag, "base": t_int(base),
            "members": [{"name": n, "value": pint(v)} for n, v in members]}


def t_ptr(target):
    return {"k": "ptr", "target": target}


def L_fixed(n):
    return {"k": "fixed", "n": n}


L_NULL = {"k": "null"}
L_EOF = {"k": "eof"}


def L_expr(e):
    return {"k": "expr", "e": e}


def t_arr(elem, ln):
    return {"k": "arr", "elem": elem, "len": ln}


def field(name, typ, bits=0, anon=False):
    return {"name": name, "type": typ, "bits": bits, "anon": anon}


def t_struct(name, fields, union=False):
    return {"k": "union" if union else "struct", "name": name, "fields": fields}


# expression trees
def e_lit(n):
    return {"k": "lit", "n": n}


def e_id(name):
    return {"k": "id", "name": name}


def e_un(o, e):
    return {"k": "un", "o": o, "e": e}


def e_bin(o, l, r):
    return {"k": "bin", "o": o, "l": l, "r": r}


def e_sizeof(tname, size):
    return {"k": "sizeof", "tname": tname, "size": size}


PREC = {"|": 0, "^": 1, "&": 2, "<<": 3, ">>": 3, "+": 4, "-": 4, "*": 5, "/": 5, "%": 5}


def render_expr(e, ctx=0, sp=" "):
    k = e["k"]
    if k == "lit":
        return str(e["n"])
    if k == "id":
        return e["name"]
    if k == "sizeof":
        return f"sizeof({e['tname']})"
    if k == "un":
        return e["o"] + render_expr(e["e"], 6, sp)
    p = PREC[e["o"]]
    body = render_expr(e["l"], p, sp) + sp + e["o"] + sp + render_expr(e["r"], p + 1, sp)
    return f"({body})" if p < ctx else body


def eval_expr(e, env):
    """Python reference evaluation (used only to bound generated expressions, never as an oracle)."""
    k = e["k"]
    if k == "lit":
        return e["n"]
    if k == "id":
        return env[e["name"]]
    if k == "sizeof":
        return e["size"]
    if k == "un":
        a = eval_expr(e["e"], env)
        return -a if e["o"] == "-" else ~a
    a, b = eval_expr(e["l"], env), eval_expr(e["r"], env)
    o = e["o"]
    return {"|": lambda: a | b, "^": lambda: a ^ b, "&": lambda: a & b, "<<": lambda: a << b, ">>": lambda: a >> b,
            "+": lambda: a + b, "-": lambda: a - b, "*": lambda: a * b, "/": lambda: a // b, "%": lambda: a % b}[o]()


def folded_u8(t):
    """Names of the plain uint8 members of t and of its anonymous members (recursively)."""
    out = []
    for f in t["fields"]:
        if not f["bits"] and f["type"]["k"] == "int" and f["type"]["name"] == "uint8":
            out.append(f["name"])
        elif f.get("anon") and f["type"]["k"] in ("struct", "union"):
            out += folded_u8(f["type"])
    return out


def expr_refs(e, names):
    """Does the tree mention one of `names`?"""
    k = e["k"]
    if k == "id":
        return e["name"] in names
    if k == "un":
        return expr_refs(e["e"], names)
    if k == "bin":
        return expr_refs(e["l"], names) or expr_refs(e["r"], names)
    return False


# ---------------------------------------------------------------------------------------- type queries
def type_name(t):
    """The spelling of t in a field declaration (without array / pointer decoration)."""
    k = t["k"]
    if k in ("int", "float"):
        return t["name"]
    if k == "leb":
        return "ileb128" if t["signed"] else "uleb128"
    if k in ("char", "wchar", "void"):
        return k
    if k in ("enum", "struct", "union"):
        return t["name"]
    raise ValueError(k)


def static_size(t, mode):
    """Python mirror of SizeOf for *generation purposes only* (sizeof literals, input sizing)."""
    k = t["k"]
    if k in ("int", "float"):
        return t["size"]
    if k == "char":
        return 1
    if k == "wchar":
        return 2
    if k == "void":
        return 0
    if k == "leb":
        return None
    if k == "ptr":
        return mode["ptr"]
    if k == "enum":
        return t["base"]["size"]
    if k == "arr":
        es = static_size(t["elem"], mode)
        if t["len"]["k"] != "fixed" or es is None:
            return None
        return es * t["len"]["n"]
    return None  # structs: not needed by the generator


# ------------------------------------------------------------------------------------------ rendering
SPELLINGS = {"uint32": "unsigned int", "uint16": "unsigned short", "uint64": "unsigned long long", "int8": "signed char", "int16": "short"}


class Renderer:
    """Abstract type -> definition text.  Named enums/structs become top-level definitions in dependency order;
    fields flagged `anon` are rendered inline as anonymous members."""

    def __init__(self):
        self.defs = []      # list of (name, text)
        self.done = set()

    def decl(self, t, fname, inline=False):
        """(type spelling, declarator) for a field of type t named fname; inline: the structure behind the arrays / pointers
        is declared in place (struct { ... } *name[2];) instead of being referred to by name."""
        suffix = ""
        stars = ""
        while t["k"] == "arr":
            ln = t["len"]
            if ln["k"] == "fixed":
                suffix += f"[{ln['n']}]"
            elif ln["k"] == "null":
                suffix += "[]"
            elif ln["k"] == "eof":
                suffix += "[EOF]"
            else:
                suffix += f"[{render_expr(ln['e'])}]"
            if ln["k"] == "fixed" and "e" in ln:
                suffix = suffix[: suffix.rindex("[")] + f"[{render_expr(ln['e'])}]"
            t = t["elem"]
        while t["k"] == "ptr":
            stars += "*"
            if "selfname" in t:      # pointer to the structure being defined (forward reference to itself)
                return t["selfname"], f"{stars}{fname}{suffix}"
            t = t["target"]
        if inline and t["k"] in ("struct", "union"):
            # inline == "tag": the structure declared in place has a tag (struct Inner { ... } name;) - a name of its own that is
            # not registered with the cstruct object
            tag = f"{t['name']} " if inline == "tag" else ""
            return f"{t['k']} {tag}{self.body(t)}", f"{stars}{fname}{suffix}"
        self.ensure(t)
        return type_name(t), f"{stars}{fname}{suffix}"

    def ensure(self, t):
        k = t["k"]
        if k == "arr":
            return self.ensure(t["elem"])
        if k == "ptr":
            return None if "selfname" in t else self.ensure(t["target"])
        if k == "enum":
            if t["name"] in self.done:
                return
            self.done.add(t["name"])
            body = ", ".join(f"{m['name']} = {unpint(m['value'])}" for m in t["members"])
            self.defs.append((t["name"], f"{'flag' if t['flag'] else 'enum'} {t['name']} : {t.get('spelling') or t['base']['name']} {{ {body} }};"))
        elif k in ("struct", "union"):
            if t["name"] in self.done:
                return
            self.done.add(t["name"])
            text = self.body(t)
            self.defs.append((t["name"], f"{k} {t['name']} {text};"))

    def body(self, t):
        lines = []
        for f in t["fields"]:
            ft = f["type"]
            if f.get("anon"):
                lines.append(f"{ft['k']} {self.body(ft)};")
                continue
            if f.get("inline"):
                # a named member whose structure type is declared in place: struct { ... } name;  (also behind arrays / pointers)
                tn, d = self.decl(ft, f["name"], inline=f["inline"])
                lines.append(f"{tn} {d};")
                continue
            tn, d = self.decl(ft, f["name"])
            bits = f":{f['bits']}" if f["bits"] else ""
            lines.append(f"{tn} {d}{bits};")
        return "{ " + " ".join(lines) + " }"

    def text(self, consts=None):
        head = "".join(f"#define {k} {v}\n" for k, v in (consts or {}).items())
        return head + "\n".join(txt for _, txt in self.defs)


def render(t, consts=None):
    r = Renderer()
    r.ensure(t)
    return r.text(consts)


# ------------------------------------------------------------------------------------------ values
def pint(v):
    v = int(v)
    m = abs(v)
    limbs = []
    while m:
        limbs.append(m & 255)
        m >>= 8
    return {"k": "int", "neg": v < 0, "mag": limbs}


def unpint(p):
    n = 0
    for i, b in enumerate(p["mag"]):
        n |= b << (8 * i)
    return -n if p["neg"] else n


OOD = {"k": "out_of_domain"}


def project(v, t):
    """Total projection of a real value of (abstract) type t.  A Python value that cannot be the image of an
    abstract value of t becomes an `out_of_domain` record, which no specification value equals."""
    from dissect.cstruct.types import Structure
    from dissect.cstruct.types.structure import UnionProxy

    try:
        if isinstance(v, UnionProxy):
            v = v.__target__
        k = t["k"]
        if k in ("struct", "union"):
            if not isinstance(v, Structure):
                return dict(OOD, why=f"not a structure: {type(v).__name__}")
            names, vals = [], []
            real = type(v).__fields__
            if len(real) != len(t["fields"]):
                return dict(OOD, why="field count differs")
            for f, rf in zip(t["fields"], real):
                # the i-th abstract field is the i-th real field (anonymous members have generated names)
                fv = getattr(v, rf._name)
                names.append(f["name"])
                if f["bits"] and f["type"]["k"] == "char":
                    # a bit-field stored in a char unit is a plain unsigned integer
                    vals.append(project(fv, {"k": "int"}))
                else:
                    vals.append(project(fv, f["type"]))
            return {"k": "struct", "cls": t["name"], "names": names, "vals": vals}
        if k == "ptr":
            if not isinstance(v, int):
                return dict(OOD, why="pointer is not an int")
            return {"k": "ptr", "addr": pint(v)}
        if k == "enum":
            if not hasattr(v, "value") or type(v).__name__ != t["name"]:
                return dict(OOD, why=f"not a {t['name']} member: {v!r}")
            return {"k": "enum", "cls": t["name"], "v": pint(v.value)}
        if k in ("int", "leb"):
            if not isinstance(v, int) or isinstance(v, bool):
                return dict(OOD, why=f"not an int: {v!r}")
            return pint(v)
        if k == "float":
            if not isinstance(v, float):
                return dict(OOD, why=f"not a float: {v!r}")
            fmt = {2: ">e", 4: ">f", 8: ">d"}[t["size"]]
            return {"k": "float", "bits": list(_struct.pack(fmt, v))}
        if k == "char":
            if not isinstance(v, bytes):
                return dict(OOD, why="char is not bytes")
            return {"k": "bytes", "b": list(v)}
        if k == "wchar":
            if not isinstance(v, str):
                return dict(OOD, why="wchar is not str")
            return {"k": "str", "cps": [ord(c) for c in v]}
        if k == "void":
            return {"k": "void"}
        if k == "arr":
            e = t["elem"]["k"]
            if e == "char":
                if not isinstance(v, bytes):
                    return dict(OOD, why="char[] is not bytes")
                return {"k": "bytes", "b": list(v)}
            if e == "wchar":
                if not isinstance(v, str):
                    return dict(OOD, why="wchar[] is not str")
                return {"k": "str", "cps": [ord(c) for c in v]}
            if not isinstance(v, list):
                return dict(OOD, why="array is not a list")
            return {"k": "list", "items": [project(x, t["elem"]) for x in v]}
    except Exception as e:  # projection is total
        return dict(OOD, why=f"{type(e).__name__}: {e}")
    return dict(OOD, why=f"unknown kind {t.get('k')}")


def has_nan(p):
    if isinstance(p, dict):
        if p.get("k") == "float":
            b = p["bits"]
            fmt = {2: ">e", 4: ">f", 8: ">d"}[len(b)]
            return math.isnan(_struct.unpack(fmt, bytes(b))[0])
        return any(has_nan(x) for x in p.values())
    if isinstance(p, list):
        return any(has_nan(x) for x in p)
    return False


def unproject(p, t, T):
    """Abstract value -> real Python value of the real type class T, usable for construction / assignment."""
    k = t["k"]
    if k in ("int", "leb"):
        return unpint(p)
    if k == "ptr":
        return unpint(p["addr"])
    if k == "enum":
        return T(unpint(p["v"]))
    if k == "float":
        fmt = {2: ">e", 4: ">f", 8: ">d"}[t["size"]]
        return _struct.unpack(fmt, bytes(p["bits"]))[0]
    if k == "char":
        return bytes(p["b"])
    if k == "wchar":
        return "".join(chr(c) for c in p["cps"])
    if k == "void":
        return T()
    if k == "arr":
        e = t["elem"]["k"]
        if e == "char":
            return bytes(p["b"])
        if e == "wchar":
            return "".join(chr(c) for c in p["cps"])
        return [unproject(x, t["elem"], T.type) for x in p["items"]]
    if k in ("struct", "union"):
        kw = {}
        for f, rf, fv in zip(t["fields"], T.__fields__, p["vals"]):
            if f["bits"] and f["type"]["k"] == "char":
                kw[rf._name] = unpint(fv)
            else:
                kw[rf._name] = unproject(fv, f["type"], rf.type)
        return T(**kw)
    raise ValueError(k)


def project_layout(T):
    """Layout observation of a real type class (size / alignment / field offsets; -1 = None)."""
    from dissect.cstruct.types import Structure

    size = T.size if T.size is not None else -1
    align = T.alignment or 1
    offs = []
    if isinstance(T, type) and issubclass(T, Structure):
        offs = [f.offset if f.offset is not None else -1 for f in T.__fields__]
    return {"size": size, "align": align, "offs": offs}


# ------------------------------------------------------------------------------------------ generator
DEFAULT_CFG = {
    "depth": 2, "max_fields": 5,
    "bits": True, "float": True, "leb": True, "wchar": True, "char": True, "enum": True, "ptr": True, "void": True,
    "nested": True, "union": True, "anon": True, "arrays": True, "expr": True, "null": True, "eof": True, "multidim": True,
    "consts": True, "wide": True,
    # cumulative thresholds of the field-kind choice: scalar, bit-field run, array, pointer, void (rest: nested)
    "w": (0.30, 0.42, 0.72, 0.78, 0.80),
}


class Gen:
    def __init__(self, rnd, mode, cfg=None):
        self.rnd = rnd
        self.mode = mode
        self.cfg = dict(DEFAULT_CFG, **(cfg or {}))
        self.n = 0
        self.consts = {}
        if self.cfg["consts"] and rnd.random() < 0.5:
            for i in range(rnd.randrange(1, 3)):
                self.consts[f"K{i}"] = rnd.randrange(0, 4)

    def fresh(self, p):
        self.n += 1
        return f"{p}{self.n}"

    def int_name(self):
        names = list(INTS) if self.cfg["wide"] else [n for n in INTS if INTS[n][0] in (1, 2, 4, 8)]
        return self.rnd.choice(names)

    def enum(self, base=None):
        rnd = self.rnd
        base = base or rnd.choice(["uint8", "int8", "uint16", "uint32", "int16", "uint64", "uint24", "int24", "uint48", "int128"])
        flag = rnd.random() < 0.4
        if flag and INTS[base][1]:
            base = "u" + base  # flags over signed bases with negative values are finding F19; exercised by C12
        vals = [("A", 1), ("B", 2), ("C", 8)] if flag else [("A", 1), ("B", 2), ("C", 8), ("D", 9)]
        t = t_enum(self.fresh("E"), base, vals, flag)
        if base in SPELLINGS and rnd.random() < 0.3:
            t["spelling"] = SPELLINGS[base]      # the base type written as a C type name of several words
        return t

    def scalar(self):
        rnd, cfg = self.rnd, self.cfg
        r = rnd.random()
        if r < 0.45:
            return t_int(self.int_name())
        if r < 0.55 and cfg["float"]:
            return t_float(rnd.choice(list(FLOATS)))
        if r < 0.65 and cfg["leb"]:
            return t_leb(rnd.random() < 0.5)
        if r < 0.75 and cfg["wchar"]:
            return t_wchar()
        if r < 0.85 and cfg["char"]:
            return t_char()
        if cfg["enum"]:
            return self.enum()
        return t_int(self.int_name())

    def expr(self, refs):
        """Length expression over earlier uint8 fields (always masked to 0..3) and constants; bounded to <= 8."""
        rnd = self.rnd
        leaves = []
        for r in refs:
            leaves.append((e_bin("&", e_id(r), e_lit(3)), 0, 3))
        for c, v in self.consts.items():
            if c not in refs:            # a field of the same name shadows the constant (it is then one of the refs)
                leaves.append((e_id(c), v, v))
        leaves.append((e_lit(rnd.randrange(0, 4)), None, None))
        leaves.append((e_sizeof("uint16", 2), 2, 2))

        def leaf():
            e, lo, hi = rnd.choice(leaves)
            if lo is None:
                lo = hi = e["n"]
            return e, lo, hi

        def tree(d):
            if d == 0 or rnd.random() < 0.3:
                return leaf()
            o = rnd.choice(["+", "-", "*", "&", "|", "^", "<<", ">>", "/", "%"])
            l, llo, lhi = tree(d - 1)
            if o in ("<<", ">>"):
                n = rnd.randrange(0, 3)
                r, rlo, rhi = e_lit(n), n, n
            elif o in ("/", "%"):
                n = rnd.randrange(1, 4)
                r, rlo, rhi = e_lit(n), n, n
                if llo < 0:
                    return l, llo, lhi
            else:
                r, rlo, rhi = tree(d - 1)
            e = e_bin(o, l, r)
            cands = []
            for a in (llo, lhi):
                for b in (rlo, rhi):
                    try:
                        cands.append(eval_expr(e_bin(o, e_lit(a), e_lit(b)), {}))
                    except Exception:
                        pass
            if o in ("&", "|", "^"):
                if llo < 0 or rlo < 0:
                    return l, llo, lhi
                lo, hi = 0, max(lhi, rhi) * 2 + 1
            else:
                lo, hi = min(cands), max(cands)
            if rnd.random() < 0.08:
                e, lo, hi = e_un("-", e), -hi, -lo
            return e, lo, hi

        e, lo, hi = tree(2)
        if hi > 8:
            if lo < 0:
                e = e_lit(rnd.randrange(0, 4))
            else:
                e = e_bin("&", e, e_lit(7))
        return e

    def array_of(self, elem, refs, last, in_union):
        rnd, cfg = self.rnd, self.cfg
        k = elem["k"]
        forms = ["fixed"]
        if cfg["expr"] and refs is not None and not in_union:
            forms.append("expr")
        if cfg["null"] and k in ("int", "char", "wchar", "enum", "leb") and not in_union:
            forms.append("null")
        if cfg["null"] and k == "struct" and elem.get("allint") and not in_union:
            forms.append("null")
        if cfg["eof"] and last and not in_union and k not in ("void",) and not (k == "struct" and elem.get("maybe_empty")):
            forms.append("eof")
        form = rnd.choice(forms)
        if form == "fixed":
            n = rnd.randrange(0, 4)
            arr = t_arr(elem, L_fixed(n))
            if cfg["multidim"] and rnd.random() < 0.15 and k != "leb":
                arr = t_arr(arr, L_fixed(rnd.randrange(1, 3)))
            return arr
        if form == "null":
            return t_arr(elem, L_NULL)
        if form == "eof":
            return t_arr(elem, L_EOF)
        e = self.expr(refs)
        if not expr_refs(e, set(refs)):
            # no field is referenced: the definition parser evaluates the expression itself, the array is a fixed one
            n = eval_expr(e, self.consts)
            if n < 0:
                return t_arr(elem, L_fixed(0))
            return t_arr(elem, {"k": "fixed", "n": n, "e": e})
        return t_arr(elem, L_expr(e))

    def struct(self, depth=None, union=False, anon=False):
        rnd, cfg = self.rnd, self.cfg
        depth = cfg["depth"] if depth is None else depth
        name = self.fresh("un" if union else "s")
        nf = rnd.randrange(1, cfg["max_fields"] if union else cfg["max_fields"] + 1)
        fields = []
        refs = []
        cur = [None, 0]      # open bit unit: storage name, bits used
        j = 0
        allint = True
        while j < nf:
            fname = f"f{j}" if not anon else f"a{self.n}_{j}"
            last = j == nf - 1
            r = rnd.random()
            w = cfg["w"]
            if r < w[0]:
                t = self.scalar()
                if t["k"] == "int" and t["name"] == "uint8" and self.consts and rnd.random() < 0.25:
                    shadow = rnd.choice(list(self.consts))       # a field named like a constant: the field wins in later expressions
                    if shadow not in [f["name"] for f in fields]:
                        fname = shadow
                fields.append(field(fname, t))
                cur[0] = None
                if t["k"] == "int" and t["name"] == "uint8":
                    refs.append(fname)
                if t["k"] not in ("int", "enum"):
                    allint = False
            elif r < w[1] and cfg["bits"] and not union:
                base = rnd.choice(["uint8", "uint16", "uint32", "uint64", "int8", "int16", "int32", "enum", "char", "uint24"])
                if base == "enum":
                    ty = self.enum(rnd.choice(["uint8", "uint16"]))
                    stname, total = ty["base"]["name"], ty["base"]["size"] * 8
                elif base == "char":
                    ty, stname, total = t_char(), "char", 8
                else:
                    ty, stname, total = t_int(base), base, INTS[base][0] * 8
                k = rnd.randrange(1, 4)
                used = cur[1] if cur[0] == stname else 0
                for _ in range(k):
                    if used == total:
                        used = 0
                    b = min(rnd.randrange(1, 13), total - used)
                    used += b
                    cur[0], cur[1] = stname, used
                    fname = f"f{j}" if not anon else f"a{self.n}_{j}"
                    fields.append(field(fname, ty, b))
                    j += 1
                continue
            elif r < w[2] and cfg["arrays"]:
                elem = self.scalar()
                if depth > 0 and cfg["nested"] and rnd.random() < 0.25:
                    elem = self.struct(depth - 1)
                if elem["k"] == "float" or elem["k"] == "void":
                    pass
                arr = self.array_of(elem, refs if refs else None, last, union)
                fields.append(field(fname, arr))
                if elem["k"] == "struct" and cfg.get("inline", True) and rnd.random() < 0.25:
                    fields[-1]["inline"] = True if rnd.random() < 0.6 else "tag"     # struct { ... } name[n];  /  struct Tag { ... } name[n];
                cur[0] = None
                allint = False
            elif r < w[3] and cfg["ptr"]:
                tgt = rnd.choice([t_int("uint16"), t_int("uint8"), t_char()])
                inl = False
                if depth > 0 and cfg["nested"] and cfg.get("inline", True) and rnd.random() < 0.12:
                    tgt = self.struct(depth - 1)     # pointer to a structure, declared in place half of the time: struct { ... } *name;
                    inl = rnd.choice([False, False, True, "tag"])
                t = t_ptr(tgt)
                if rnd.random() < 0.15:
                    t = t_ptr(t)           # pointer to pointer
                if rnd.random() < 0.2:
                    t = t_arr(t, L_fixed(rnd.randrange(1, 3)))
                fields.append(field(fname, t))
                if inl:
                    fields[-1]["inline"] = inl
                cur[0] = None
                allint = False
            elif r < w[4] and cfg["void"]:
                fields.append(field(fname, t_void()))
                cur[0] = None
                allint = False
            elif depth > 0 and cfg["nested"]:
                sub_union = cfg["union"] and rnd.random() < 0.4
                sub_anon = cfg["anon"] and rnd.random() < 0.25
                sub = self.struct(depth - 1, union=sub_union, anon=sub_anon)
                fields.append(field(fname, sub, anon=sub_anon))
                if sub_anon:
                    # the members of an anonymous member are members of this structure: later lengths may name them (finding F39)
                    refs += folded_u8(sub)
                if not sub_anon and cfg.get("inline", True) and rnd.random() < 0.2:
                    fields[-1]["inline"] = True if rnd.random() < 0.6 else "tag"
                cur[0] = None
                if not sub.get("allint"):
                    allint = False
            else:
                continue
            j += 1
        t = t_struct(name, fields, union)
        t["allint"] = allint and not union and len(fields) > 0
        t["maybe_empty"] = all(f["type"]["k"] in ("void", "arr", "struct", "union") for f in fields)
        return t


def flatten_anon_names(t):
    """Names reachable on an instance (anonymous members fold their fields into the parent)."""
    out = []
    for f in t["fields"]:
        if f.get("anon"):
            out.extend(flatten_anon_names(f["type"]))
        else:
            out.append(f["name"])
    return out


def has_dup_names(t):
    k = t["k"]
    if k in ("struct", "union"):
        names = flatten_anon_names(t)
        if len(set(names)) != len(names):
            return True
        return any(has_dup_names(f["type"]) for f in t["fields"])
    if k == "arr":
        return has_dup_names(t["elem"])
    return False


# ------------------------------------------------------------------------------------------ bounded universes
def field_alphabet(mode):
    """The field kinds of U_small (DESIGN.md section 3).  Each entry: list of fields it contributes."""
    E = t_enum("E1", "uint8", [("A", 1), ("B", 2)])
    F = t_enum("F1", "uint16", [("X", 1), ("Y", 4)], flag=True)
    inner = t_struct("in1", [field("x", t_int("uint8")), field("y", t_int("uint16"))])
    un = t_struct("un1", [field("p", t_int("uint8")), field("q", t_int("uint16"))], union=True)
    kinds = {
        "u8": [field("{n}", t_int("uint8"))], "i8": [field("{n}", t_int("int8"))],
        "u16": [field("{n}", t_int("uint16"))], "i16": [field("{n}", t_int("int16"))],
        "u32": [field("{n}", t_int("uint32"))], "i64": [field("{n}", t_int("int64"))],
        "u24": [field("{n}", t_int("uint24"))], "i24": [field("{n}", t_int("int24"))], "i128": [field("{n}", t_int("int128"))],
        "c2": [field("{n}", t_arr(t_char(), L_fixed(2)))], "u8x2": [field("{n}", t_arr(t_int("uint8"), L_fixed(2)))],
        "u16x2x2": [field("{n}", t_arr(t_arr(t_int("uint16"), L_fixed(2)), L_fixed(2)))],
        "ptr": [field("{n}", t_ptr(t_int("uint8")))], "nest": [field("{n}", inner)], "union": [field("{n}", un)],
        "bits8": [field("{n}a", t_int("uint8"), 3), field("{n}b", t_int("uint8"), 5)],
        "bits16": [field("{n}a", t_int("uint16"), 4), field("{n}b", t_int("uint16"), 9)],
        "ibits32": [field("{n}a", t_int("int32"), 31), field("{n}b", t_int("int32"), 1)],
        "ebits": [field("{n}a", E, 2), field("{n}b", E, 6)],
        "leb": [field("{n}", t_leb(True))], "uleb": [field("{n}", t_leb(False))],
        "wchar": [field("{n}", t_wchar())], "w2": [field("{n}", t_arr(t_wchar(), L_fixed(2)))],
        "f16": [field("{n}", t_float("float16"))], "f32": [field("{n}", t_float("float"))], "f64": [field("{n}", t_float("double"))],
        "enum": [field("{n}", E)], "flag": [field("{n}", F)],
        "u8null": [field("{n}", t_arr(t_int("uint8"), L_NULL))], "cnull": [field("{n}", t_arr(t_char(), L_NULL))],
        "wnull": [field("{n}", t_arr(t_wchar(), L_NULL))],
        "void": [field("{n}", t_void())],
        "nestarr": [field("{n}", t_arr(inner, L_fixed(2)))],
    }
    return kinds


def universe(max_fields=2, kinds=None, modes=None, with_len_field=True):
    """All structures of 1..max_fields entries of the alphabet x modes (+ a length-prefixed array family)."""
    import itertools

    modes = modes or [{"endian": e, "align": a, "ptr": p} for e in "<>" for a in (False, True) for p in (2, 8)]
    out = []
    for mode in modes:
        alpha = field_alphabet(mode)
        names = kinds or list(alpha)
        for n in range(1, max_fields + 1):
            for combo in itertools.product(names, repeat=n):
                if mode["ptr"] != 8 and "ptr" not in combo:
                    continue        # the pointer width only matters when there is a pointer
                fields = []
                for i, kname in enumerate(combo):
                    for f in alpha[kname]:
                        g = dict(f)
                        g["name"] = f["name"].format(n=f"f{i}")
                        fields.append(g)
                out.append({"type": t_struct("S", fields), "mode": mode, "consts": {"_": 0}})
        if with_len_field:
            for elem in (t_int("uint8"), t_int("uint16"), t_char(), t_wchar(), alpha["nest"][0]["type"]):
                for e in (e_id("n"), e_bin("-", e_bin("&", e_id("n"), e_lit(3)), e_lit(1)), e_bin("*", e_id("K"), e_bin("&", e_id("n"), e_lit(1)))):
                    fields = [field("n", t_int("uint8")), field("d", t_arr(elem, L_expr(e))), field("t", t_int("uint16"))]
                    out.append({"type": t_struct("S", fields), "mode": mode, "consts": {"K": 2}})
            out.append({"type": t_struct("S", [field("h", t_int("uint8")), field("d", t_arr(t_int("uint16"), L_EOF))]), "mode": mode, "consts": {"_": 0}})
    return out


# ------------------------------------------------------------------------------------------ value generation
def Storage_size(t):
    return 1 if t["k"] == "char" else (t["base"]["size"] if t["k"] == "enum" else t["size"])


def has_kind(t, kinds):
    k = t["k"]
    if k in kinds:
        return True
    if k == "arr":
        return has_kind(t["elem"], kinds)
    if k == "ptr":
        return False
    if k in ("struct", "union"):
        return any(has_kind(f["type"], kinds) for f in t["fields"])
    return False


def int_bounds(size, signed):
    return (-(1 << (8 * size - 1)), (1 << (8 * size - 1)) - 1) if signed else (0, (1 << (8 * size)) - 1)


def gen_int(rnd, size, signed):
    lo, hi = int_bounds(size, signed)
    r = rnd.random()
    if r < 0.35:
        return rnd.choice([lo, hi, 0, 1, -1 if signed else hi - 1, lo + 1, hi // 2, (hi // 2) + 1])
    if r < 0.6:
        return rnd.randrange(lo, hi + 1)
    return max(lo, min(hi, rnd.choice([1, 2, 3, 127, 128, 255, 256, -128, -129, 65535, 65536])))


def gen_value(rnd, t, mode, consts, ctx=None, nonzero=False):
    """A random abstract value of type t that is Consistent (DESIGN 4.0): expression-length arrays have the length their
    expression gives, null-terminated arrays contain no zero element."""
    k = t["k"]
    if k == "int":
        while True:
            v = gen_int(rnd, t["size"], t["signed"])
            if v or not nonzero:
                return pint(v)
    if k == "leb":
        while True:
            v = rnd.choice([0, 1, 63, 64, 127, 128, 300, 16383, 16384, 2 ** 35 + 5, 2 ** 62, 2 ** 62 + 1, 2 ** 63, 2 ** 64 - 1, 2 ** 70])
            if t["signed"] and rnd.random() < 0.5:
                v = -v - rnd.randrange(2)
            if v or not nonzero:
                return pint(v)
    if k == "enum":
        while True:
            v = rnd.choice([unpint(m["value"]) for m in t["members"]] + [gen_int(rnd, t["base"]["size"], t["base"]["signed"])])
            if t["flag"] and v < 0:
                continue
            if v or not nonzero:
                return {"k": "enum", "cls": t["name"], "v": pint(v)}
    if k == "ptr":
        return {"k": "ptr", "addr": pint(gen_int(rnd, mode["ptr"], False))}
    if k == "float":
        fmt = {2: ">e", 4: ">f", 8: ">d"}[t["size"]]
        while True:
            b = bytes(rnd.choice([0, 0x3C, 0x7B, 0x80, 0xFF, rnd.randrange(256)]) for _ in range(t["size"]))
            x = _struct.unpack(fmt, b)[0]
            if not math.isnan(x) and (x != 0 or not nonzero):
                return {"k": "float", "bits": list(b)}
    if k == "char":
        return {"k": "bytes", "b": [rnd.randrange(1 if nonzero else 0, 256)]}
    if k == "wchar":
        return {"k": "str", "cps": [gen_cp(rnd, bmp=True, nonzero=nonzero)]}
    if k == "void":
        return {"k": "void"}
    if k == "arr":
        ln, e = t["len"], t["elem"]
        if ln["k"] == "fixed":
            n = ln["n"]
        elif ln["k"] == "expr":
            n = max(0, eval_expr(ln["e"], dict(consts, **(ctx or {}))))
        else:
            n = rnd.randrange(0, 4)
        nz = ln["k"] == "null"
        if e["k"] == "char":
            return {"k": "bytes", "b": [rnd.randrange(1 if nz else 0, 256) for _ in range(n)]}
        if e["k"] == "wchar":
            cps, units = [], 0
            while units < n:
                cp = gen_cp(rnd, bmp=(n - units < 2), nonzero=nz)
                cps.append(cp)
                units += 2 if cp >= 0x10000 else 1
            return {"k": "str", "cps": cps}
        return {"k": "list", "items": [gen_value(rnd, e, mode, consts, ctx, nonzero=nz) for _ in range(n)]}
    if k in ("struct", "union"):
        names, vals, env = [], [], {}
        first = True
        for f in t["fields"]:
            if f["bits"]:
                v = pint(rnd.choice([0, 1, (1 << f["bits"]) - 1, rnd.randrange(1 << f["bits"])]))
                if nonzero and first and not unpint(v):
                    v = pint(1)
                if f["type"]["k"] == "enum":
                    v = {"k": "enum", "cls": f["type"]["name"], "v": v}
            else:
                v = gen_value(rnd, f["type"], mode, consts, env, nonzero=nonzero and first)
            first = False
            names.append(f["name"])
            vals.append(v)
            if v.get("k") == "int" and len(v["mag"]) <= 1 and not v["neg"]:
                env[f["name"]] = unpint(v)
        return {"k": "struct", "cls": t["name"], "names": names, "vals": vals}
    raise ValueError(k)


def gen_cp(rnd, bmp=False, nonzero=False):
    while True:
        r = rnd.random()
        if r < 0.5:
            cp = rnd.randrange(1 if nonzero else 0, 128)
        elif r < 0.85 or bmp:
            cp = rnd.choice([0xFF, 0x100, 0xD7FF, 0xE000, 0xFFFF, rnd.randrange(0x80, 0xD800)])
        else:
            cp = rnd.choice([0x10000, 0x10FFFF, 0x1F600])
        if cp or not nonzero:
            return cp


def leaf_paths(t, mode, path=()):
    """Paths to integer-like leaves (fixed-width int, enum, pointer, bit-field) that are not inside unions."""
    k = t["k"]
    if k in ("int", "enum", "ptr"):
        yield path, t
    elif k == "struct":
        for i, f in enumerate(t["fields"]):
            if not f["bits"]:
                yield from leaf_paths(f["type"], mode, path + (("f", i),))
            else:
                # a bit-field is an integer field of f["bits"] bits (finding F36)
                yield path + (("f", i),), {"k": "bits", "bits": f["bits"], "type": f["type"]}
    elif k == "arr" and t["elem"]["k"] not in ("char", "wchar"):
        yield from leaf_paths(t["elem"], mode, path + (("e", 0),))


def set_leaf(v, path, new):
    """Replace the leaf at `path` (array paths address element 0; returns None when that element does not exist)."""
    if not path:
        return new
    kind, i = path[0]
    if kind == "f":
        sub = set_leaf(v["vals"][i], path[1:], new)
        if sub is None:
            return None
        return dict(v, vals=v["vals"][:i] + [sub] + v["vals"][i + 1:])
    if not v["items"]:
        return None
    sub = set_leaf(v["items"][0], path[1:], new)
    if sub is None:
        return None
    return dict(v, items=[sub] + v["items"][1:])


def misfit(rnd, leaf, mode):
    """An integer that does not fit the leaf type, wrapped as that leaf's value kind."""
    if leaf["k"] == "bits":
        n = rnd.choice([1 << leaf["bits"], (1 << leaf["bits"]) + 3, -1])
        if leaf["type"]["k"] == "enum":
            if n < 0:
                n = 1 << leaf["bits"]
            return {"k": "enum", "cls": leaf["type"]["name"], "v": pint(n)}
        return pint(n)
    if leaf["k"] == "ptr":
        size, signed = mode["ptr"], False
    elif leaf["k"] == "enum":
        size, signed = leaf["base"]["size"], leaf["base"]["signed"]
    else:
        size, signed = leaf["size"], leaf["signed"]
    lo, hi = int_bounds(size, signed)
    n = rnd.choice([hi + 1, lo - 1, hi + 256, lo - (1 << (8 * size)), (1 << (8 * size)) + 5])
    if leaf["k"] == "enum" and leaf["flag"] and n < 0:
        n = hi + 1
    if leaf["k"] == "ptr":
        return {"k": "ptr", "addr": pint(n)}
    if leaf["k"] == "enum":
        return {"k": "enum", "cls": leaf["name"], "v": pint(n)}
    return pint(n)
