"""Thin runner around TLC: model checking runs (MC_*), batch trace validation (Trace_*) and simulation (Gen_*)."""
from __future__ import annotations

import concurrent.futures as cf
import json
import os
import re
import shutil
import resource
import subprocess
import tempfile
import time

VERIF = os.path.dirname(os.path.dirname(os.path.abspath(__file__)))
JAR = "/opt/veriftools/tla/tla2tools.jar:/opt/veriftools/tla/CommunityModules-deps.jar"
LIBPATH = os.pathsep.join(os.path.join(VERIF, d) for d in ("spec", "mc", "trace", "gen"))


class TLCError(RuntimeError):
    pass


class TLCResult:
    def __init__(self, out, rc, wall):
        self.out = out
        self.rc = rc
        self.wall = wall
        m = re.search(r"(\d+) states generated, (\d+) distinct states found", out)
        self.generated = int(m.group(1)) if m else 0
        self.distinct = int(m.group(2)) if m else 0
        self.violated = re.findall(r"Error: Invariant (\S+) is violated", out) + \
            re.findall(r"Error: Action property (\S+) is violated", out) + \
            re.findall(r"Error: Temporal properties were violated", out)
        self.error = None
        if rc != 0 and not self.violated:
            m = re.search(r"Error: (.*?)(?:\n\n|\Z)", out, re.S)
            self.error = m.group(1)[:2000] if m else f"TLC exit {rc}"
        self.deadlock = "Deadlock reached" in out

    def printed(self, tag):
        """All PrintT(<<tag, ...>>) tuples as raw strings (single-worker runs keep lines intact)."""
        return [l for l in self.out.splitlines() if l.startswith(f'<<"{tag}"')]

    def coverage(self):
        """action name -> (distinct, total) from -coverage output."""
        cov = {}
        for m in re.finditer(r"^<(\w+) line \d+, col \d+ to line \d+, col \d+ of module (\w+)>: (\d+):(\d+)", self.out, re.M):
            cov[m.group(1)] = (int(m.group(3)), int(m.group(4)))
        return cov


def _unlimit():
    """The harness process runs under an address-space limit (framework.main); the JVM reserves its heap up front and must not."""
    resource.setrlimit(resource.RLIMIT_AS, (resource.RLIM_INFINITY, resource.RLIM_INFINITY))


def run(module_path, cfg_path=None, *, env=None, workers=1, timeout=3600, extra=(), defines=(), heap="4g", cwd=None):
    """Run TLC on a module. The module may live anywhere; spec/ mc/ trace/ gen/ are on the library path."""
    meta = tempfile.mkdtemp(prefix="tlcmeta_")
    cmd = ["java", "-XX:+UseParallelGC", f"-Xmx{heap}", "-Xss256m", f"-DTLA-Library={LIBPATH}"]
    cmd += [f"-D{d}" for d in defines]
    cmd += ["-cp", JAR, "tlc2.TLC", "-metadir", meta, "-noGenerateSpecTE", "-workers", str(workers)]
    if cfg_path:
        cmd += ["-config", cfg_path]
    cmd += list(extra) + [module_path]
    e = dict(os.environ)
    e.update(env or {})
    t0 = time.time()
    try:
        p = subprocess.run(cmd, capture_output=True, text=True, env=e, timeout=timeout, cwd=cwd or os.path.dirname(module_path),
                           preexec_fn=_unlimit)
        out, rc = p.stdout + p.stderr, p.returncode
    except subprocess.TimeoutExpired as ex:
        out = (ex.stdout or b"").decode() if isinstance(ex.stdout, bytes) else (ex.stdout or "")
        out += "\nError: TLC timed out"
        rc = 124
    finally:
        shutil.rmtree(meta, ignore_errors=True)
    return TLCResult(out, rc, time.time() - t0)


_VERDICT = re.compile(r'<<\s*"VERDICT",\s*(-?\d+),\s*\{([^}]*)\}\s*>>', re.S)


def parse_verdicts(res):
    """PrintT(<<"VERDICT", id, {clauses}>>) tuples; TLC pretty-prints long tuples over several lines."""
    return {int(m.group(1)): re.findall(r'"([^"]*)"', m.group(2)) for m in _VERDICT.finditer(res.out)}


def validate_batch(trace_module, records, *, procs=16, chunk=None, env_name="TRACE_FILE", timeout=3600):
    """Validate recorded executions with a Trace_* specification.

    `records` is a list of dicts with a unique integer `id`.  The batch is split over up to `procs` TLC processes
    (one worker each: PrintT lines stay intact).  Returns {id: [failed clauses]}; raises TLCError when TLC itself
    fails (that is a machinery failure, never a verdict)."""
    if not records:
        return {}, {"tlc_states": 0, "tlc_wall": 0.0}
    module_path = os.path.join(VERIF, "trace", trace_module + ".tla")
    cfg = os.path.join(VERIF, "trace", trace_module + ".cfg")
    n = len(records)
    procs = max(1, min(procs, (n + 49) // 50))
    size = chunk or (n + procs - 1) // procs
    tmp = tempfile.mkdtemp(prefix="tlcbatch_")
    verdicts, states, t0 = {}, 0, time.time()
    try:
        jobs = []
        for k in range(0, n, size):
            path = os.path.join(tmp, f"b{k}.ndjson")
            with open(path, "w") as fh:
                for r in records[k:k + size]:
                    fh.write(json.dumps(r, separators=(",", ":")) + "\n")
            jobs.append((path, records[k:k + size]))
        with cf.ThreadPoolExecutor(max_workers=procs) as ex:
            futs = {ex.submit(run, module_path, cfg, env={env_name: p}, workers=1, timeout=timeout): (p, recs) for p, recs in jobs}
            for f in cf.as_completed(futs):
                p, recs = futs[f]
                res = f.result()
                v = parse_verdicts(res)
                if res.error or len(v) != len(recs):
                    missing = [r["id"] for r in recs if r["id"] not in v][:1]
                    keep = os.path.join(tempfile.gettempdir(), "tlc_failed_batch.ndjson")
                    shutil.copy(p, keep)
                    raise TLCError(f"TLC failed on batch {p} (first record without verdict: {missing}); copy kept at {keep}\n"
                                   + (res.error or res.out[-3000:]))
                verdicts.update(v)
                states += res.generated
    finally:
        shutil.rmtree(tmp, ignore_errors=True)
    return verdicts, {"tlc_states": states, "tlc_wall": round(time.time() - t0, 2)}
