"""C16: pointers.  E1 = MC_Ptr; E2 = histories Parse / Deref / Arith / Dump on real structures, judged by Trace_Ptr."""
from __future__ import annotations

import io
import random

from harness import absyn as A
from harness import codec
from harness.checks_codec import run_mc
from harness.checks_scalar import validate_histories
from harness.framework import MachineryError

OPS = ["+", "-", "*", "//", "%", "<<", ">>", "&", "|", "^"]


def targets():
    in1 = A.t_struct("tin", [A.field("x", A.t_int("uint8")), A.field("y", A.t_int("uint16")), A.field("z", A.t_arr(A.t_char(), A.L_fixed(2)))])
    return [A.t_int("uint8"), A.t_int("uint16"), A.t_int("int32"), A.t_int("uint64"), in1, A.t_char(), A.t_ptr(A.t_int("uint8")),
            A.t_ptr(A.t_char()), A.t_wchar(), A.t_leb(False)]


def deref_type(t):
    return A.t_arr(A.t_char(), A.L_NULL) if t["k"] == "char" else t


def status_of(e):
    from dissect.cstruct.exceptions import NullPointerDereference

    if isinstance(e, NullPointerDereference):
        return "null"
    return codec.classify(e)


def observe_deref(p, target, stream):
    try:
        v = p.dereference()
        pv = A.project(v, deref_type(target))
        # "returns the same value on every later dereference": also when the bytes at the target have changed in the meantime
        # (the pointer was dereferenced once - what it points to is what it saw then; falsy values such as 0 included)
        raw = getattr(stream, "_b", stream)
        saved = raw.getvalue() if raw is not None and hasattr(raw, "getvalue") else None
        if saved is not None:
            keep = raw.tell()
            raw.seek(0)
            raw.write(bytes((b ^ 0xA5) for b in saved))
            raw.seek(keep)
        try:
            v2 = p.dereference()
        finally:
            if saved is not None:
                keep = raw.tell()
                raw.seek(0)
                raw.write(saved)
                raw.seek(keep)
        same = v2 is v or A.project(v2, deref_type(target)) == pv
        return {"status": "ok", "v": pv, "again_same": bool(same), "pos": stream.tell() if stream else 0}
    except Exception as e:  # noqa: BLE001
        return {"status": status_of(e), "v": codec.NONE_V, "again_same": True, "pos": stream.tell() if stream else 0,
                "exc": f"{type(e).__name__}: {e}"[:120]}


def ptr_history(rnd, first_id):
    mode = {"endian": rnd.choice("<>"), "align": rnd.random() < 0.4, "ptr": rnd.choice([1, 2, 4, 8, 1, 2, 4, 8, 3, 6, 16])}
    tg = targets()
    nptr = rnd.randrange(1, 4)
    fields, k = [], 0
    for i in range(nptr):
        if rnd.random() < 0.5:
            fields.append(A.field(f"pre{k}", A.t_int(rnd.choice(["uint8", "uint16", "uint32"]))))
            k += 1
        fields.append(A.field(f"p{i}", A.t_ptr(rnd.choice(tg))))
    if rnd.random() < 0.5:
        fields.append(A.field("post", A.t_int("uint16")))
    t = A.t_struct("PS", fields)
    if rnd.random() < 0.2:
        # the pointer is a member of a fixed-size union (its members are parsed from a copy of the union's bytes - the pointer
        # still points into the stream the union came from; finding F54)
        fields = [A.field("p0", A.t_ptr(rnd.choice(tg))), A.field("raw", A.t_int(A.PTRTYPES[mode["ptr"]]))]
        if rnd.random() < 0.4:
            # ... or an array of pointers (seed S96: only members declared as pointers or structures were bound to the stream)
            fields[0] = A.field("p0", A.t_arr(A.t_ptr(rnd.choice(tg)), A.L_fixed(2)))
        t = A.t_struct("PS", fields, union=True)
    defs = A.render(t)
    compiled = rnd.random() < 0.5
    if rnd.random() < 0.3 and "struct PS" in defs:
        # the pointer width is configured AFTER other definitions with the same pointer targets were loaded under another width:
        # what is declared afterwards has the configured width (nothing about a pointer type may be remembered per target)
        other = dict(mode, ptr=rnd.choice([w for w in (1, 2, 3, 4, 6, 8) if w != mode["ptr"]]))
        cs = codec.load(defs.replace("struct PS", "struct PW"), other, compiled)
        if rnd.random() < 0.5:
            try:
                cs.PW(bytes(cs.PW.size))
            except Exception:  # noqa: BLE001
                pass
        cs.pointer = cs.resolve(A.PTRTYPES[mode["ptr"]])
        cs.load(defs[defs.index("struct PS"):], compiled=compiled, align=mode["align"])
    else:
        if rnd.random() < 0.35:
            # the byte order is switched AFTER the definitions were loaded (and compiled): the one in force at the call counts,
            # also for pointer widths that are not struct-packed (seed S104)
            mode["loaded_as"] = ">" if mode["endian"] == "<" else "<"
        cs = codec.load(defs, mode, compiled)
    T = cs.PS
    base = {"type": t, "mode": mode, "consts": {"_": 0}}
    events, rid = [], first_id
    if t["k"] == "union" and rnd.random() < 0.3:
        # built from a value: the pointer member gets an address, but there is no stream it could point into
        v = T(raw=rnd.choice([1, 2, 0x41, (1 << (8 * mode["ptr"])) - 1]))
        events.append(dict(base, id=rid, ev="Built", input=[], v=A.project(v, t), obs={}))
        rid += 1
        stream, data = None, b""
    elif rnd.random() < 0.1:
        v = T()
        events.append(dict(base, id=rid, ev="Default", input=[], obs={}))
        rid += 1
        stream, data = None, b""
    else:
        start = rnd.choice([0, 0, 16, 5])
        n = start + T.size + rnd.randrange(4, 60)
        data = bytearray(rnd.choice([0, 0, 1, 0x41, 0x7F, 0x80, 0xFF, rnd.randrange(256)]) for _ in range(n))
        width = mode["ptr"]
        for f, rf in zip(fields, T.__fields__):
            nel = 1 if f["type"]["k"] == "ptr" else f["type"]["len"]["n"] if (f["type"]["k"] == "arr" and f["type"]["elem"]["k"] == "ptr") else 0
            for el in range(nel):
                addr = rnd.choice([0, n - 1, n, n + 5, rnd.randrange(0, n), rnd.randrange(0, n), start])
                addr = min(addr, (1 << (8 * width)) - 1)
                off = start + (rf.offset or 0) + el * width
                data[off:off + width] = addr.to_bytes(width, "little" if mode["endian"] == "<" else "big")
        data = bytes(data)
        stream = codec.FaultyStream(data)      # behaves like BytesIO until a fault is armed (DerefFault below)
        stream.seek(start)
        ev = dict(base, id=rid, ev="Parse", input=list(data), start=start)
        try:
            v = T.read(stream)
            ev["obs"] = {"status": "ok", "v": A.project(v, t), "pos": stream.tell()}
        except Exception as e:  # noqa: BLE001
            ev["obs"] = {"status": codec.classify(e), "v": codec.NONE_V, "pos": 0}
            events.append(ev)
            return events, rid + 1
        events.append(ev)
        rid += 1
    todo = []
    for i, (f, rf) in enumerate(zip(fields, T.__fields__)):
        if f["type"]["k"] == "ptr":
            todo.append((i, 0, getattr(v, rf._name), f["type"]["target"]))
        elif f["type"]["k"] == "arr" and f["type"]["elem"]["k"] == "ptr":
            todo += [(i, el + 1, getattr(v, rf._name)[el], f["type"]["elem"]["target"]) for el in range(f["type"]["len"]["n"])]
    for i, elem, p, target in todo:
        if stream is not None and rnd.random() < 0.3:
            # the stream fails (raises) on the first read of the dereference: the position must be restored all the same, and the
            # dereference below must still give the right value
            stream.fault_call, stream.kind = stream.n, "raise"
            try:
                p.dereference()
                st = "ok"
            except Exception as e:  # noqa: BLE001
                st = "null" if status_of(e) == "null" else codec.classify_fault(e)
            stream.fault_call = None
            events.append(dict(base, id=rid, ev="DerefFault", field=i + 1, elem=elem, input=list(data), obs={"status": st, "pos": stream.tell()}))
            rid += 1
        events.append(dict(base, id=rid, ev="Deref", field=i + 1, elem=elem, input=list(data), obs=observe_deref(p, target, stream)))
        rid += 1
        if rnd.random() < 0.6:
            op, n = rnd.choice(OPS), rnd.choice([0, 1, 2, 3, 4, 7, 16])
            if op in ("//", "%") and n == 0:
                n = 2
            operand = n
            if op == "-" and rnd.random() < 0.5:
                # pointer - pointer: the right operand is a pointer object itself (the statement makes no exception: a pointer of
                # the same type on the same stream; seed S126)
                operand = rnd.choice(todo)[2]
                n = int(operand)
            try:
                q = eval(f"p {op} n", {"p": p, "n": operand})   # noqa: S307 - operator applied to the real pointer object
                obs = observe_deref(q, target, stream) if hasattr(q, "dereference") else {"status": "error", "v": codec.NONE_V, "again_same": True, "pos": stream.tell() if stream else 0}
                obs.update(sameclass=type(q) is type(p), addr=A.pint(int(q)))
            except Exception as e:  # noqa: BLE001
                obs = {"status": "error", "v": codec.NONE_V, "again_same": True, "pos": 0, "sameclass": False, "addr": A.pint(0),
                       "exc": f"{type(e).__name__}: {e}"[:120]}
            events.append(dict(base, id=rid, ev="Arith", field=i + 1, elem=elem, op=op, n=n, input=list(data), obs=obs))
            rid += 1
    try:
        b = {"status": "ok", "b": list(v.dumps())}
    except Exception as e:  # noqa: BLE001
        b = {"status": "error", "b": [], "exc": f"{type(e).__name__}: {e}"[:120]}
    events.append(dict(base, id=rid, ev="Dump", input=[], obs=b))
    return events, rid + 1


class PtrCheck:
    prop = "C16"

    def run(self, rep):
        thorough = rep.tier == "thorough"
        rnd = random.Random(rep.seed)
        rep.rule = ("E1: widths 1/2/4/8 x byte order x 5 targets x 7 addresses (0, in range, last byte, beyond), histories Parse ; "
                    "Deref*; E2: random structures with 1..3 pointer fields (10 target kinds incl. structures, char strings, pointers "
                    "to pointers, wchar, LEB128) with planted addresses (0, last byte, end, beyond, random), both readers: Parse, "
                    "Deref (twice), pointer arithmetic with 10 operators then Deref, Dump, and default-constructed structures (no "
                    "stream); non-trivial = a Deref / Arith event judged")
        run_mc(rep, "MC_Ptr", workers=8)
        events, rid = [], 0
        for _ in range(6000 if thorough else 500):
            evs, rid = ptr_history(rnd, rid)
            events.append({"ev": "New", "endian": "<"})
            events += evs
        judged = [e for e in events if "id" in e]
        rep.evaluations += len(judged)
        verdicts, _ = validate_histories("Trace_Ptr", events)
        rep.traces += len(verdicts)
        for e in judged:
            v = verdicts.get(e["id"])
            if v is None:
                raise MachineryError(f"no verdict for pointer event {e['id']}")
            if any(c.startswith("SKIP") for c in v):
                rep.count(v[0])
                continue
            if e["ev"] in ("Deref", "Arith"):
                rep.nontrivial_case([A.render(e["type"]), e["mode"], e["ev"], e.get("field"), e.get("op"), e.get("n"), e["obs"].get("status")])
            rep.sample({"defs": A.render(e["type"]), "ev": e["ev"], "field": e.get("field"), "obs": {k: e["obs"].get(k) for k in ("status", "pos", "addr")}}, limit=4)
            if v:
                rep.violation(f"pointer event {e['ev']} field={e.get('field')} op={e.get('op')} n={e.get('n')}: clauses {v} :: {A.render(e['type'])[:300]} mode={e['mode']} obs={str(e['obs'])[:300]}",
                              {"kind": "ptr-event", "event": e, "clauses": v})

    def replay(self, path):
        print("replay: re-run ./check C16 with the seed in the file name")
        return 0
