import sys

from harness import framework
from harness.registry import CHECKS

if __name__ == "__main__":
    sys.exit(framework.main(CHECKS))
