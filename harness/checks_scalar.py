"""C05: scalar codecs of every built-in name under the byte order in force at call time (Trace_Scalar, MC_Scalar)."""
from __future__ import annotations

import io
import os
import random
import struct

from harness import absyn, codec, tlc
from harness.checks_codec import run_mc
from harness.framework import MachineryError

BOUNDARY = [0x00, 0x01, 0x7F, 0x80, 0xFF]


def generic_project(v, T):
    """Project a scalar without knowing its abstract type (the specification decides what the name means)."""
    if isinstance(v, float):
        return {"k": "float", "bits": list(struct.pack({2: ">e", 4: ">f", 8: ">d"}[T.size], v))}
    if isinstance(v, bytes):
        return {"k": "bytes", "b": list(v)}
    if isinstance(v, str):
        return {"k": "str", "cps": [ord(c) for c in v]}
    if isinstance(v, int) and not isinstance(v, bool):
        return absyn.pint(v)
    if type(v).__name__ == "void" or v.__class__.__mro__[1].__name__ == "Void":
        return {"k": "void"}
    return dict(absyn.OOD, why=f"unexpected scalar {type(v).__name__}")


STRUCT_T = absyn.t_struct("SC", [absyn.field("a", absyn.t_int("uint16")), absyn.field("b", absyn.t_int("int32")),
                                 absyn.field("w", absyn.t_arr(absyn.t_wchar(), absyn.L_fixed(2))),
                                 absyn.field("f", absyn.t_float("float")), absyn.field("x", absyn.t_int("uint16"), 4),
                                 absyn.field("y", absyn.t_int("uint16"), 12), absyn.field("e", absyn.t_arr(absyn.t_int("uint24"), absyn.L_fixed(2)))])


# a structure whose members are read element by element (null-terminated arrays): another code path of the scalar codecs
DYN_T = absyn.t_struct("SD", [absyn.field("n", absyn.t_int("uint16")), absyn.field("z", absyn.t_arr(absyn.t_int("uint32"), {"k": "null"})),
                              absyn.field("s", absyn.t_arr(absyn.t_wchar(), {"k": "null"})), absyn.field("q", absyn.t_arr(absyn.t_int("int16"), {"k": "null"}))])
STRUCTS = {"SC": STRUCT_T, "SI": STRUCT_T, "SD": DYN_T, "SJ": DYN_T}


def project_form(v, T):
    """Value of an array form of a built-in name: char arrays are bytes, wchar arrays str, everything else a list."""
    if isinstance(v, (bytes, str)):
        return generic_project(v, T)
    return {"k": "list", "items": [generic_project(x, T) for x in v]}


def leb_bytes(v, signed):
    """Reference LEB128 encoding (only to build INPUTS at interesting values; the specification judges what they decode to)."""
    out = bytearray()
    while True:
        b = v & 0x7F
        v >>= 7
        done = (v == 0 and not (signed and b & 0x40)) or (signed and v == -1 and b & 0x40)
        out.append(b | (0 if done else 0x80))
        if done:
            return bytes(out)


def gen_bytes(rnd, n):
    r = rnd.random()
    if r < 0.5:
        return bytes(rnd.choice(BOUNDARY) for _ in range(n))
    if r < 0.6:
        return bytes(range(1, n + 1))
    return bytes(rnd.randrange(256) for _ in range(n))


def history(rnd, first_id, nev=14):
    from dissect.cstruct import cstruct

    e0 = rnd.choice(["<", ">", "!"])
    cs = cstruct(endian=e0)
    events = [{"ev": "New", "endian": e0}]
    sdef = absyn.render(STRUCT_T)
    cs.load(sdef, compiled=True)
    cs.load(sdef.replace("SC", "SI"), compiled=False)
    ddef = absyn.render(DYN_T)
    cs.load(ddef, compiled=True)
    cs.load(ddef.replace("SD", "SJ"), compiled=False)
    names = [n for n in cs.typedefs if n not in STRUCTS]
    last = {}
    rid = first_id
    for _ in range(nev):
        r = rnd.random()
        if r < 0.2:
            e = rnd.choice(["<", ">", "!"])
            cs.endian = e
            events.append({"ev": "SetEndian", "endian": e})
            continue
        use_struct = rnd.random() < 0.25
        name = rnd.choice(list(STRUCTS)) if use_struct else rnd.choice(names)
        T = E = cs.resolve(name)
        base = {"id": rid, "name": name, "align": False, "ptr": 8}
        form = None
        if use_struct:
            base["type"] = dict(STRUCTS[name], name=name)
        elif name != "void" and rnd.random() < 0.3:
            # the same name as T[n] / T[None] (null-terminated): arrays take other paths through the codecs than single values
            form = {"k": "fixed", "n": rnd.randrange(1, 4)} if rnd.random() < 0.5 else {"k": "null"}
            base["form"] = form
            T = E[form["n"]] if form["k"] == "fixed" else E[None]
        key = (name, str(form))
        if r < 0.75 or key not in last:
            if use_struct and T.size is None:
                # n, elements of z, terminator, characters of s, terminator, elements of q, terminator (zeros in the random part end an array earlier)
                data = gen_bytes(rnd, 2 + 4 * rnd.randrange(0, 3)) + bytes(4) + gen_bytes(rnd, 2 * rnd.randrange(0, 3)) + bytes(2) \
                    + gen_bytes(rnd, 2 * rnd.randrange(0, 3)) + bytes(2 if rnd.random() < 0.9 else 1)
            elif form is not None:
                esz = E.size if E.size is not None else 1
                k = form["n"] if form["k"] == "fixed" else rnd.randrange(0, 3)
                data = gen_bytes(rnd, esz * k)
                if E.size is None:
                    data = bytes(b | 0x80 for b in data)  # k LEB128 groups that never terminate early ...
                    data = bytes(x if (i + 1) % 2 else x & 0x7F for i, x in enumerate(data)) if rnd.random() < 0.7 else data
                if E.__name__ in ("wchar", "wchar_t", "WCHAR") and rnd.random() < 0.6:
                    # text beyond the basic plane: one character = two 16-bit units (a reader that decodes unit by unit fails)
                    units = form["n"] if form["k"] == "fixed" else rnd.randrange(2, 6)
                    txt = ""
                    while units > 0:
                        c = rnd.choice(["\U0001F600", "\U00010000", "\U0010FFFF"]) if units >= 2 and rnd.random() < 0.6 else rnd.choice(["A", "\u00e9", "\uffff"])
                        txt += c
                        units -= 2 if ord(c) > 0xFFFF else 1
                    data = txt.encode("utf-16-le" if cs.endian == "<" else "utf-16-be")
                if form["k"] == "null":
                    data += bytes(esz if rnd.random() < 0.9 else max(esz - 1, 0))
                data += bytes(rnd.randrange(0, 2))
            else:
                n = (T.size if T.size is not None else rnd.randrange(1, 5)) + rnd.randrange(0, 2)
                data = gen_bytes(rnd, n)
                if T.size is None:   # LEB128: make termination likely
                    data = bytes(b | 0x80 for b in data[:-1]) + bytes([data[-1] & 0x7F]) if rnd.random() < 0.7 else data
            st = io.BytesIO(data)
            ev = dict(base, ev="Read", input=list(data), size=E.size if E.size is not None else -1, alignment=E.alignment or 1)
            try:
                v = T.read(st)
                p = absyn.project(v, base["type"]) if use_struct else (project_form(v, E) if form else generic_project(v, T))
                ev.update(status="ok", v=p, pos=st.tell())
                last[key] = (v, p)
            except Exception as e:  # noqa: BLE001
                ev.update(status=codec.classify(e), v=codec.NONE_V, pos=0, exc=f"{type(e).__name__}: {e}"[:120])
            events.append(ev)
        elif (not use_struct) and form is None and isinstance(T, type) and issubclass(T, int) and rnd.random() < 0.5:
            # an integer chosen at the boundaries of the 7- and 8-bit groupings, written without having been read first: it is
            # encoded (and must then be the encoding the specification gives) or refused (and must then not fit)
            k = rnd.choice([6, 7, 8, 13, 14, 15, 16, 20, 21, 24, 31, 32, 35, 48, 56, 63, 64])
            val = rnd.choice([1, -1]) * ((1 << k) + rnd.choice([-2, -1, 0, 0, 1, rnd.randrange(0, 1 << k)])) if rnd.random() < 0.85 else rnd.choice([0, -1, 1])
            ev = dict(base, ev="Write", v=absyn.pint(val))
            try:
                ev.update(status="ok", b=list(T.dumps(val)))
            except Exception as e:  # noqa: BLE001
                ev.update(status="error", b=[], exc=f"{type(e).__name__}: {e}"[:120])
            events.append(ev)
        else:
            v, p = last[key]
            misfit = (not use_struct) and form is None and p.get("k") == "int" and rnd.random() < 0.3
            if misfit:
                big = (1 << (8 * (T.size or 2))) + rnd.randrange(3) if rnd.random() < 0.5 else -(1 << (8 * (T.size or 2))) - 1
                v, p = big, absyn.pint(big)
            if absyn.has_nan(p):
                continue
            ev = dict(base, ev="Write", v=p)
            try:
                b = T.dumps(v) if not hasattr(v, "dumps") or misfit else v.dumps()
                ev.update(status="ok", b=list(b))
            except Exception as e:  # noqa: BLE001
                ev.update(status="error", b=[], exc=f"{type(e).__name__}: {e}"[:120])
            events.append(ev)
        rid += 1
    return events, rid


class ScalarCheck:
    prop = "C05"

    def run(self, rep):
        thorough = rep.tier == "thorough"
        rnd = random.Random(rep.seed)
        rep.rule = ("E1: every built-in name x {<,>,!} x all byte strings over {00,01,7F,80,FF} (<= 4 bytes exhaustive) with an "
                    "optional endianness switch between read and write; E2: histories on one cstruct object "
                    "(New(e), SetEndian, Read(name, bytes), Write(name, value)) over every name of cs.typedefs and a structure "
                    "loaded compiled and interpreted before the switches; non-trivial = a Read/Write event judged under the byte "
                    "order in force")
        rep.assumptions += ["float numeric interpretation: the projection packs the Python float with struct (IEEE) - the spec fixes byte order and width",
                            "native byte orders @ and = are outside the claimed domain"]
        run_mc(rep, "MC_Scalar", cfg="MC_Scalar_all" if thorough else None)
        nh = 4000 if thorough else 260
        events, rid, coverage = [], 0, set()
        for _ in range(nh):
            evs, rid = history(rnd, rid)
            events += evs
        # systematic part: every name x every byte order x boundary patterns (fresh object per combination)
        from dissect.cstruct import cstruct

        probe = cstruct()
        for name in list(probe.typedefs):
            for e in ("<", ">", "!"):
                cs = cstruct(endian=e)
                T = cs.resolve(name)
                events.append({"ev": "New", "endian": e})
                sz = T.size if T.size is not None else 3
                pats = [bytes([c]) * sz for c in BOUNDARY] + [bytes(range(1, sz + 1)), bytes([0x80] + [0] * (sz - 1)), bytes([0] * (sz - 1) + [0x80])][: (8 if thorough else 5)]
                for data in pats:
                    if T.size is None:
                        data = bytes(b | 0x80 for b in data[:-1]) + bytes([data[-1] & 0x7F])
                    st = io.BytesIO(data)
                    ev = {"id": rid, "ev": "Read", "name": name, "align": False, "ptr": 8, "input": list(data),
                          "size": T.size if T.size is not None else -1, "alignment": T.alignment or 1}
                    try:
                        v = T.read(st)
                        ev.update(status="ok", v=generic_project(v, T), pos=st.tell())
                    except Exception as ex:  # noqa: BLE001
                        ev.update(status=codec.classify(ex), v=codec.NONE_V, pos=0)
                    events.append(ev)
                    rid += 1
                    coverage.add(name)
                if T.size is None:
                    # LEB128: the encodings of integers at the 7-bit group boundaries, up to 10+ bytes, as inputs
                    signed = name.startswith("i")
                    for k in (6, 7, 13, 14, 34, 35, 55, 56, 62, 63, 64, 69, 70):
                        for val in ((1 << k) - 1, 1 << k, -(1 << k), -(1 << k) - 1):
                            if val < 0 and not signed:
                                continue
                            data = leb_bytes(val, signed) + b"\x55"
                            st = io.BytesIO(data)
                            ev = {"id": rid, "ev": "Read", "name": name, "align": False, "ptr": 8, "input": list(data), "size": -1, "alignment": 1}
                            try:
                                v = T.read(st)
                                ev.update(status="ok", v=generic_project(v, T), pos=st.tell())
                            except Exception as ex:  # noqa: BLE001
                                ev.update(status=codec.classify(ex), v=codec.NONE_V, pos=0)
                            events.append(ev)
                            rid += 1
                if isinstance(T, type) and issubclass(T, int):
                    # boundary integers written directly (encoded as specified, or refused because they do not fit)
                    vals = {0, 1, -1}
                    for k in ((6, 7, 13, 14, 20, 21, 63, 64) if T.size is None else (8 * T.size - 1, 8 * T.size)):
                        vals |= {1 << k, (1 << k) - 1, (1 << k) + 1, -(1 << k), -(1 << k) - 1, -(1 << k) + 1}
                    for val in sorted(vals) if (thorough or T.size is None) else rnd.sample(sorted(vals), min(len(vals), 8)):
                        ev = {"id": rid, "ev": "Write", "name": name, "align": False, "ptr": 8, "v": absyn.pint(val)}
                        try:
                            ev.update(status="ok", b=list(T.dumps(val)))
                        except Exception as ex:  # noqa: BLE001
                            ev.update(status="error", b=[], exc=f"{type(ex).__name__}: {ex}"[:120])
                        events.append(ev)
                        rid += 1
        rep.extra["builtin_names_covered"] = len(coverage)
        judged = [e for e in events if "id" in e]
        rep.evaluations += len(judged)
        verdicts, stats = validate_histories("Trace_Scalar", events)
        rep.traces += len(verdicts)
        for e in judged:
            v = verdicts.get(e["id"])
            if v is None:
                raise MachineryError(f"no verdict for event {e['id']}")
            skips = [c for c in v if c.startswith("SKIP")]
            for s in skips:
                rep.count(s)
            if skips:
                continue
            rep.nontrivial_case([e["ev"], e["name"], e.get("input"), e.get("v")])
            rep.sample({k: e[k] for k in ("ev", "name", "input", "status", "v", "b") if k in e})
            if v:
                rep.violation(f"{e['ev']}({e['name']}) clauses {v}: input={e.get('input')} value={e.get('v')} status={e.get('status')} {e.get('exc', '')} bytes={e.get('b')}",
                              {"kind": "scalar-event", "event": e, "clauses": v})

    def replay(self, path):
        print("replay: re-run ./check C05 with the seed recorded in the replay file name")
        return 0


def validate_histories(module, events, procs=16):
    """Split a list of events at New boundaries into roughly equal batches and validate them in parallel."""
    import concurrent.futures as cf
    import json
    import tempfile

    starts = [i for i, e in enumerate(events) if e["ev"] == "New"] + [len(events)]
    chunks, cur = [], []
    target = max(200, len(events) // procs)
    for a, b in zip(starts, starts[1:]):
        cur += events[a:b]
        if len(cur) >= target:
            chunks.append(cur)
            cur = []
    if cur:
        chunks.append(cur)
    mod = os.path.join(tlc.VERIF, "trace", module + ".tla")
    cfg = os.path.join(tlc.VERIF, "trace", module + ".cfg")
    tmp = tempfile.mkdtemp(prefix="hist_")
    out, states = {}, 0
    try:
        paths = []
        for i, ch in enumerate(chunks):
            p = os.path.join(tmp, f"h{i}.ndjson")
            with open(p, "w") as fh:
                for e in ch:
                    fh.write(json.dumps(e, separators=(",", ":")) + "\n")
            paths.append(p)
        with cf.ThreadPoolExecutor(max_workers=procs) as ex:
            for res in ex.map(lambda p: tlc.run(mod, cfg, env={"TRACE_FILE": p}, workers=1), paths):
                if res.error:
                    raise MachineryError(f"TLC failed on {module}: {res.error}\n{res.out[-2000:]}")
                out.update(tlc.parse_verdicts(res))
                states += res.generated
    finally:
        import shutil

        shutil.rmtree(tmp, ignore_errors=True)
    return out, {"tlc_states": states}
