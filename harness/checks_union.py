"""C11: unions as coherent views of one buffer.  E1 = MC_Union, E2 = histories on real union objects judged by Trace_Union."""
from __future__ import annotations

import io
import itertools
import random

from harness import absyn as A
from harness import codec
from harness.checks_codec import run_mc
from harness.checks_scalar import validate_histories
from harness.framework import MachineryError


def member_alphabet():
    in1 = A.t_struct("in1", [A.field("x", A.t_int("uint8")), A.field("y", A.t_int("uint16"))])
    pad = A.t_struct("pad1", [A.field("a", A.t_int("uint8")), A.field("b", A.t_int("uint32"))])
    deep = A.t_struct("deep1", [A.field("i", A.t_struct("deep2", [A.field("p", A.t_int("uint8")), A.field("q", A.t_int("uint8"))])),
                                A.field("w", A.t_int("uint16"))])
    bits = A.t_struct("bits1", [A.field("lo", A.t_int("uint8"), 3), A.field("hi", A.t_int("uint8"), 5), A.field("c", A.t_int("uint16"))])
    anon = A.t_struct("an1", [A.field("k", A.t_int("uint8")), A.field("l", A.t_int("uint8"))])
    inner_u = A.t_struct("iu1", [A.field("s", A.t_int("uint16")), A.field("t", A.t_arr(A.t_int("uint8"), A.L_fixed(2)))], union=True)
    return {
        "u8": A.field("m_u8", A.t_int("uint8")), "u16": A.field("m_u16", A.t_int("uint16")), "i32": A.field("m_i32", A.t_int("int32")),
        "u8x3": A.field("m_arr", A.t_arr(A.t_int("uint8"), A.L_fixed(3))), "c2": A.field("m_c2", A.t_arr(A.t_char(), A.L_fixed(2))),
        "in": A.field("m_in", in1), "pad": A.field("m_pad", pad), "deep": A.field("m_deep", deep), "bits": A.field("m_bits", bits),
        "anon": A.field("m_anon", anon, anon=True), "union": A.field("m_union", inner_u), "u64": A.field("m_u64", A.t_int("uint64")),
    }


def leaf_assignments(t, mode, path, rnd, per_leaf=2, anon=False, in_anon=False):
    """(path, value) pairs for a member of type t: the member as a whole and every leaf reachable through nested structures.

    anon: t is the type of an anonymous member; in_anon: its container is itself an anonymous member.  An anonymous
    structure nested in an anonymous member has no name a user could assign to (only its folded fields are attributes
    of the enclosing named object), so it is never assigned as a whole."""
    out = []
    # a whole value containing a union would have to be coherent: assign below it instead
    if not A.has_kind(t, {"union"}) and not (anon and in_anon):
        for _ in range(per_leaf):
            out.append((path, A.gen_value(rnd, t, mode, {})))
    if t["k"] in ("struct", "union"):
        for i, f in enumerate(t["fields"]):
            if f["bits"]:
                for v in (0, (1 << f["bits"]) - 1):
                    pv = A.pint(v)
                    if f["type"]["k"] == "enum":
                        pv = {"k": "enum", "cls": f["type"]["name"], "v": pv}
                    out.append((path + [i + 1], pv))
            else:
                out += leaf_assignments(f["type"], mode, path + [i + 1], rnd, per_leaf, anon=bool(f.get("anon")), in_anon=anon)
    return out


def union_universe(rnd, max_members=2, names=None):
    alpha = member_alphabet()
    names = names or list(alpha)
    out = []
    for mode in [{"endian": e, "align": a, "ptr": 8} for e in "<>" for a in (False, True)]:
        for n in range(1, max_members + 1):
            for combo in itertools.combinations(names, n):
                fields = [alpha[c] for c in combo]
                u = A.t_struct("UU", fields, union=True)
                assigns = []
                for j, f in enumerate(fields):
                    assigns += leaf_assignments(f["type"], mode, [j + 1], rnd, anon=bool(f.get("anon")))
                out.append({"type": u, "mode": mode, "consts": {"_": 0}, "assigns": [{"path": p, "value": v} for p, v in assigns]})
    return out


# ------------------------------------------------------------------------------------------ driving the real union
def observe_union(u, t, T):
    try:
        members = [A.project(getattr(u, rf._name), f["type"]) for f, rf in zip(t["fields"], T.__fields__)]
    except Exception as e:  # noqa: BLE001
        members = [dict(A.OOD, why=f"{type(e).__name__}: {e}"[:100])]
    try:
        d = {"status": "ok", "b": list(u.dumps())}
    except Exception as e:  # noqa: BLE001
        d = {"status": "error", "b": [], "exc": f"{type(e).__name__}: {e}"[:150]}
    return members, d


def real_assign(u, t, T, path, value):
    """Perform the assignment the way a user would: attribute access down the path, folded names for anonymous members."""
    obj, typ, cls = u, t, T
    for depth, idx in enumerate(path):
        f, rf = typ["fields"][idx - 1], cls.__fields__[idx - 1]
        lastone = depth == len(path) - 1
        if f.get("anon") and not lastone:
            # fields of an anonymous member are reached through their folded names on the parent
            typ, cls = f["type"], rf.type
            continue
        if lastone:
            real = A.unpint(value) if (f["bits"] and f["type"]["k"] != "enum") else A.unproject(value, f["type"], rf.type)
            setattr(obj, rf._name, real)
            return
        obj, typ, cls = getattr(obj, rf._name), f["type"], rf.type


def held_parent(u, t, T, path):
    """The object holding the leaf of `path` (reached once and then kept by the caller), its abstract type and class; None when
    the path crosses an anonymous member (there is no object to hold: the names are folded into the parent)."""
    obj, typ, cls = u, t, T
    for idx in path[:-1]:
        f, rf = typ["fields"][idx - 1], cls.__fields__[idx - 1]
        if f.get("anon"):
            return None
        obj, typ, cls = getattr(obj, rf._name), f["type"], rf.type
    return obj, typ, cls


def union_history(rnd, first_id, t, mode, defs, assigns=None, nsteps=4, compiled=False):
    cs = codec.load(defs, mode, compiled)
    T = getattr(cs, t["name"])
    size = T.size
    base = {"type": t, "mode": mode, "consts": {"_": 0}}
    events = []
    rid = first_id
    if rnd.random() < 0.8:
        data = bytes(rnd.choice([0, 1, 0x7F, 0x80, 0xFF, rnd.randrange(256)]) for _ in range(size + rnd.randrange(0, 3)))
        # the union is parsed at any stream position (it consumes exactly its size wherever it starts)
        start = rnd.choice([0, 0, 1, 2, 3, 5, 8])
        st = io.BytesIO(bytes(rnd.randrange(256) for _ in range(start)) + data)
        st.seek(start)
        try:
            u = T.read(st)
        except Exception:  # noqa: BLE001 - contents some member cannot decode are outside the domain of C11
            return [], first_id
        ev = dict(base, id=rid, ev="Parse", input=list(data))
        pos = st.tell() - start
    else:
        u = T()
        ev = dict(base, id=rid, ev="Default")
        pos = size
    members, d = observe_union(u, t, T)
    ev["obs"] = {"status": "ok", "members": members, "dumps": d, "pos": pos}
    events.append(ev)
    rid += 1
    cands = assigns or []
    for _ in range(nsteps):
        if assigns:
            a = rnd.choice(cands)
            path, value = a["path"], a["value"]
        else:
            j = rnd.randrange(len(t["fields"]))
            opts = leaf_assignments(t["fields"][j]["type"], mode, [j + 1], rnd, per_leaf=1, anon=bool(t["fields"][j].get("anon")))
            if not opts:
                continue
            path, value = rnd.choice(opts)
        if A.has_nan(value):
            continue
        ev = dict(base, id=rid, ev="Assign", path=path, value=value)
        try:
            real_assign(u, t, T, path, value)
            status = {"status": "ok"}
        except Exception as e:  # noqa: BLE001
            status = {"status": "error", "exc": f"{type(e).__name__}: {e}"[:150]}
        members, d = observe_union(u, t, T)
        ev["obs"] = dict(status, members=members, dumps=d, pos=0)
        events.append(ev)
        rid += 1
        if status["status"] != "ok":
            break
        if len(path) >= 2 and rnd.random() < 0.3:
            # a user keeps the nested structure (s = u.m.s) and assigns through it TWICE: both assignments are assignments to the union
            hp = held_parent(u, t, T, path)
            sibs = [(p2, v2) for p2, v2 in leaf_assignments(hp[1], mode, path[:-1], rnd, per_leaf=1) if len(p2) == len(path)] if hp and hp[1]["k"] == "struct" else []
            sibs = [(p2, v2) for p2, v2 in sibs if not A.has_nan(v2)]
            if len(sibs) >= 2:
                held, ptyp, pcls = hp
                for nth, (p2, v2) in enumerate(rnd.sample(sibs, 2), 1):
                    f, rf = ptyp["fields"][p2[-1] - 1], pcls.__fields__[p2[-1] - 1]
                    ev = dict(base, id=rid, ev="Assign", path=p2, value=v2, held=nth)
                    try:
                        real = A.unpint(v2) if (f["bits"] and f["type"]["k"] != "enum") else A.unproject(v2, f["type"], rf.type)
                        setattr(held, rf._name, real)
                        status = {"status": "ok"}
                    except Exception as e:  # noqa: BLE001
                        status = {"status": "error", "exc": f"{type(e).__name__}: {e}"[:150]}
                    members, d = observe_union(u, t, T)
                    ev["obs"] = dict(status, members=members, dumps=d, pos=0)
                    events.append(ev)
                    rid += 1
                break
    return events, rid


class UnionCheck:
    prop = "C11"

    def run(self, rep):
        thorough = rep.tier == "thorough"
        rnd = random.Random(rep.seed)
        rep.rule = ("E1: unions of 1..2 (thorough: 3) members from a 12-kind alphabet (scalars, arrays, nested / two-level / padded / "
                    "bit-field / anonymous structures, an inner union) x packed/aligned x both byte orders, 3 initial contents, all "
                    "sequences of <= 3 assignments (whole members and every nested leaf, boundary values); E2: histories Parse|Default, "
                    "Assign* on real union objects of that universe and of random fixed-size unions, all member views and dumps() "
                    "compared after every step; non-trivial = an Assign event judged")
        names_quick = ["u8", "u16", "u8x3", "in", "pad", "deep", "bits", "anon", "union"]
        ucases = union_universe(rnd, 3 if thorough else 2, None if thorough else names_quick)
        if thorough:
            ucases = [c for c in ucases if len(c["type"]["fields"]) < 3] + rnd.sample([c for c in ucases if len(c["type"]["fields"]) == 3], 250)
        run_mc(rep, "MC_Union", ucases, heap="16g")
        # negative control: the implementation's whole-extent overwrite must be distinguishable by the model
        import os

        from harness import tlc
        from harness.checks_codec import write_universe

        p = write_universe([c for c in ucases if any(f["name"] == "m_pad" for f in c["type"]["fields"]) and c["mode"]["align"]][:20])
        try:
            neg = tlc.run(tlc.VERIF + "/mc/MC_Union.tla", tlc.VERIF + "/mc/MC_Union_dev.cfg", env={"UNIVERSE_FILE": p}, workers=8)
        finally:
            os.unlink(p)
        if "OthersKeep" not in neg.violated:
            raise MachineryError("negative control MC_Union_dev did not violate OthersKeep")
        rep.extra["negative_control"] = "MC_Union_dev (whole-extent overwrite, finding F27) violates OthersKeep as expected"

        # E3: behaviours chosen by TLC (simulation of the model) stepped through the real union, buffer compared after every step
        replay_tlc_behaviours(rep, ucases, rnd, 3000 if thorough else 300)

        events, rid = [], 0
        sample = ucases if thorough else rnd.sample(ucases, min(len(ucases), 120))
        for c in sample:
            t, mode = c["type"], c["mode"]
            defs = A.render(t)
            for _ in range(3 if thorough else 1):
                evs, rid = union_history(rnd, rid, t, mode, defs, c["assigns"], nsteps=4, compiled=rnd.random() < 0.5)
                events += [dict(e, ev=e["ev"]) for e in evs]
        nrand = 3000 if thorough else 200
        cfg = {"null": False, "eof": False, "expr": False, "leb": False, "float": False, "ptr": True, "void": False, "wchar": False}
        made = 0
        while made < nrand:
            mode = codec.gen_mode(rnd)
            g = A.Gen(rnd, mode, cfg)
            t = g.struct(union=True)
            if A.has_dup_names(t) or A.static_size(t, mode) is None and False:
                continue
            defs = A.render(t)
            try:
                cs = codec.load(defs, mode, False)
                if getattr(cs, t["name"]).size in (None, 0):
                    continue
                evs, rid = union_history(rnd, rid, t, mode, defs, None, nsteps=rnd.randrange(1, 5), compiled=rnd.random() < 0.5)
            except MachineryError:
                raise
            events += evs
            made += 1
        # histories are separated by their first event (Parse / Default); Trace_Union resets its buffer there
        for e in events:
            if e["ev"] in ("Parse", "Default"):
                e["first"] = True
        rep.evaluations += len(events)
        verdicts, stats = validate_union(events)
        rep.traces += len(verdicts)
        for e in events:
            v = verdicts.get(e["id"])
            if v is None:
                raise MachineryError(f"no verdict for union event {e['id']}")
            failed = [c for c in v if not c.startswith("KF:")]
            if e["ev"] == "Assign":
                rep.nontrivial_case([A.render(e["type"]), e["mode"], e["path"], e["value"]])
            rep.sample({"defs": A.render(e["type"]), "ev": e["ev"], "path": e.get("path"), "value": e.get("value"), "dumps": e["obs"]["dumps"]}, limit=4)
            if not failed:
                continue
            if "KF:F27" in v and set(failed) <= {"members", "dumps"} and "KF:F16" in v or ("KF:F27" in v and failed == ["members"]):
                rep.known_hit("F27", A.render(e["type"])[:160])
                if "KF:F16" in v:
                    rep.known_hit("F16", A.render(e["type"])[:160])
            elif "KF:F16" in v and failed == ["dumps"]:
                rep.known_hit("F16", A.render(e["type"])[:160])
            elif e.get("held") == 2 and set(failed) <= {"members", "dumps"}:
                # assignment through a reference to a nested structure that was obtained before an earlier assignment (finding F49)
                rep.known_hit("F49", f"{A.render(e['type'])[:120]} path={e['path']}")
            else:
                rep.violation(f"union event {e['ev']} path={e.get('path')} value={e.get('value')}: clauses {v} :: {A.render(e['type'])[:300]} mode={e['mode']} obs={str(e['obs'])[:300]}",
                              {"kind": "union-event", "event": e, "clauses": v})

    def replay(self, path):
        print("replay: see the recorded event; re-run ./check C11 --seed <seed in file name>")
        return 0


def validate_union(events):
    """Trace_Union keeps one buffer; histories are concatenated (each starts with Parse/Default which resets it)."""
    # reuse the history splitter: it cuts at "New" events, so mark history starts accordingly
    marked = []
    for e in events:
        if e.get("first"):
            marked.append({"ev": "New", "endian": "<"})
        marked.append(e)
    # Trace_Union ignores nothing: strip the synthetic markers again per chunk
    import concurrent.futures as cf
    import json
    import os
    import shutil
    import tempfile

    from harness import tlc

    starts = [i for i, e in enumerate(marked) if e["ev"] == "New"] + [len(marked)]
    chunks, cur = [], []
    target = max(150, len(events) // 16)
    for a, b in zip(starts, starts[1:]):
        cur += [e for e in marked[a:b] if e["ev"] != "New"]
        if len(cur) >= target:
            chunks.append(cur)
            cur = []
    if cur:
        chunks.append(cur)
    mod = os.path.join(tlc.VERIF, "trace", "Trace_Union.tla")
    cfg = os.path.join(tlc.VERIF, "trace", "Trace_Union.cfg")
    tmp = tempfile.mkdtemp(prefix="union_")
    out, states = {}, 0
    try:
        paths = []
        for i, ch in enumerate(chunks):
            p = os.path.join(tmp, f"u{i}.ndjson")
            with open(p, "w") as fh:
                for e in ch:
                    fh.write(json.dumps(e, separators=(",", ":")) + "\n")
            paths.append(p)
        with cf.ThreadPoolExecutor(max_workers=16) as ex:
            for p, res in zip(paths, ex.map(lambda p: tlc.run(mod, cfg, env={"TRACE_FILE": p}, workers=1), paths)):
                if res.error:
                    keep = "/tmp/tlc_failed_union.ndjson"
                    shutil.copy(p, keep)
                    raise MachineryError(f"TLC failed on Trace_Union ({keep}): {res.error}\n{res.out[-2500:]}")
                out.update(tlc.parse_verdicts(res))
                states += res.generated
    finally:
        shutil.rmtree(tmp, ignore_errors=True)
    return out, {"tlc_states": states}


# ------------------------------------------------------------------------------------------ E3: TLC behaviours replayed on the code
def parse_tla_tuples(text, tag):
    """All PrintT tuples <<"tag", ...>> of a TLC output as nested Python lists (ints and strings only)."""
    out = []
    i = 0
    needle = f'<<"{tag}",'
    alt = f'<< "{tag}",'
    while True:
        j = min([p for p in (text.find(needle, i), text.find(alt, i)) if p >= 0], default=-1)
        if j < 0:
            return out
        val, k = _parse_value(text, j)
        out.append(val)
        i = k


def _parse_value(s, i):
    while s[i].isspace():
        i += 1
    if s.startswith("<<", i):
        i += 2
        items = []
        while True:
            while s[i].isspace() or s[i] == ",":
                i += 1
            if s.startswith(">>", i):
                return items, i + 2
            v, i = _parse_value(s, i)
            items.append(v)
    if s[i] == '"':
        j = s.index('"', i + 1)
        return s[i + 1:j], j + 1
    j = i
    while j < len(s) and (s[j].isdigit() or s[j] == "-"):
        j += 1
    return int(s[i:j]), j


def replay_tlc_behaviours(rep, ucases, rnd, num, depth=6):
    """Let TLC choose behaviours of the union model (-simulate) and step the real union through them."""
    import glob
    import os
    import re
    import shutil
    import tempfile

    from harness import tlc
    from harness.checks_codec import write_universe

    path = write_universe(ucases)
    tdir = tempfile.mkdtemp(prefix="simtraces_")
    try:
        res = tlc.run(tlc.VERIF + "/gen/Gen_Union.tla", tlc.VERIF + "/gen/Gen_Union.cfg", env={"UNIVERSE_FILE": path}, workers=1,
                      extra=["-simulate", f"file={tdir}/tr,num={num}", "-depth", str(depth + 1), "-seed", str(rnd.randrange(1 << 30))], timeout=900)
        files = sorted(glob.glob(tdir + "/tr*"))
        behaviours = []
        for f in files:
            txt = open(f).read()
            states = []
            for block in re.split(r"STATE_\d+ ==", txt)[1:]:
                def seq(name):
                    m = re.search(r"/\\ " + name + r" = <<([^>]*)>>", block)
                    return [int(x) for x in m.group(1).replace("\n", " ").split(",") if x.strip()] if m else []
                def num_(name):
                    m = re.search(r"/\\ " + name + r" = (-?\d+)", block)
                    return int(m.group(1)) if m else None
                m = re.search(r"last = \[[^\]]*\]|/\\ last = (\d+)", block)
                states.append({"case": num_("case"), "n": num_("n"), "last": num_("last"), "buf": seq("buf"), "alt": seq("alt")})
            if len(states) >= 2:
                behaviours.append(states)
    finally:
        os.unlink(path)
        shutil.rmtree(tdir, ignore_errors=True)
    if not behaviours:
        raise MachineryError(f"Gen_Union produced no behaviours: {res.error or res.out[-800:]}")
    nsteps = 0
    for beh in behaviours:
        c = ucases[beh[0]["case"] - 1]
        t, mode = c["type"], c["mode"]
        cs = codec.load(A.render(t), mode, False)
        T = getattr(cs, t["name"])
        u = T(bytes(beh[0]["buf"]))
        for st in beh[1:]:
            asg = c["assigns"][st["last"] - 1]
            try:
                real_assign(u, t, T, asg["path"], asg["value"])
            except Exception as e:  # noqa: BLE001
                rep.violation(f"TLC behaviour step {st['n']}: assignment {asg['path']} raised {type(e).__name__}: {e} :: {A.render(t)[:300]}",
                              {"kind": "union-replay", "type": t, "mode": mode, "behaviour": beh, "step": st["n"]})
                break
            nsteps += 1
            got = list(u._buf)
            if got == st["buf"]:
                continue
            if got == st["alt"]:
                rep.known_hit("F27", A.render(t)[:160])
                break            # the model continues from the specified buffer: the rest of this behaviour is not comparable
            rep.violation(f"TLC behaviour step {st['n']}: after assigning {asg['path']} the union buffer is {bytes(got).hex()} but the "
                          f"specification says {bytes(st['buf']).hex()} (known deviation would be {bytes(st['alt']).hex()}) :: {A.render(t)[:300]} mode={mode}",
                          {"kind": "union-replay", "type": t, "mode": mode, "behaviour": beh, "step": st["n"]})
            break
    rep.extra["tlc_behaviours_replayed"] = len(behaviours)
    rep.extra["tlc_behaviour_steps_replayed"] = nsteps
    rep.traces += len(behaviours)
