"""E2 driver for the codec family: build scenarios, run the real library, record observations for Trace_Codec."""
from __future__ import annotations

import io
import random

from harness import absyn
from harness.absyn import Gen, project, project_layout

NONE_V = {"k": "none"}
NO_DUMP = {"status": "none", "b": [], "exc": ""}
NO_RE = {"status": "none", "v": NONE_V, "pos": 0}


def new_cs(mode):
    from dissect.cstruct import cstruct

    return cstruct(endian=mode["endian"], pointer=absyn.PTRTYPES[mode["ptr"]])


def load(defs, mode, compiled):
    cs = new_cs(mode)
    cs.load(defs, compiled=compiled, align=mode["align"])
    return cs


def classify(e):
    if isinstance(e, EOFError):
        return "eof"
    if isinstance(e, UnicodeDecodeError):
        return "decode"
    return "error"


def sizes_of(v, T):
    from dissect.cstruct.types import Structure

    if not (isinstance(T, type) and issubclass(T, Structure)):
        return []
    s = getattr(v, "_sizes", None) or {}
    return [int(s.get(f._name, -1)) if not f.bits else -1 for f in T.__fields__]


def observe_parse(T, t, data, start, *, with_dump=True, opener=None, call=None):
    """Parse T from `data` at offset `start`; returns the `res` record."""
    stream = opener(data) if opener else io.BytesIO(data)
    stream.seek(start)
    try:
        v = call(T, stream) if call else T.read(stream)
    except Exception as e:  # noqa: BLE001 - every outcome is an observation
        return {"status": classify(e), "exc": f"{type(e).__name__}: {e}"[:200], "v": NONE_V, "pos": 0, "sizes": [],
                "dump": NO_DUMP, "re": NO_RE}
    res = {"status": "ok", "exc": "", "v": project(v, t), "pos": stream.tell(), "sizes": sizes_of(v, T),
           "dump": NO_DUMP, "re": NO_RE}
    if with_dump:
        res["dump"], res["re"] = observe_dump(T, t, v)
    return res


def observe_dump(T, t, v):
    try:
        b = v.dumps() if hasattr(v, "dumps") else T.dumps(v)
    except Exception as e:  # noqa: BLE001
        return {"status": "error", "b": [], "exc": f"{type(e).__name__}: {e}"[:200]}, NO_RE
    dump = {"status": "ok", "b": list(b), "exc": ""}
    st = io.BytesIO(b)
    try:
        v2 = T.read(st)
        re = {"status": "ok", "v": project(v2, t), "pos": st.tell()}
    except Exception as e:  # noqa: BLE001
        re = {"status": classify(e), "v": NONE_V, "pos": 0, "exc": f"{type(e).__name__}: {e}"[:200]}
    return dump, re


ALPHABETS = [
    lambda r: r.choice([0, 0, 0, 1, 2, 3, 0x7F, 0x80, 0xFF, r.randrange(256)]),
    lambda r: r.randrange(256),
    lambda r: r.choice([0, 1, 0x7F, 0x80, 0xFF]),
]


def gen_input(rnd, start, maxlen=96):
    form = rnd.random()
    n = rnd.randrange(0, maxlen)
    if form < 0.15:
        body = bytes(((i + 1) & 0xFF) for i in range(n))            # ramp: every moved / dropped byte is visible
    elif form < 0.25:
        body = bytes([rnd.choice([0xFF, 0x80, 0x00])]) * n
    else:
        a = rnd.choice(ALPHABETS)
        body = bytes(a(rnd) for _ in range(n))
    prefix = bytes(rnd.randrange(256) for _ in range(start))
    return prefix + body


def gen_mode(rnd):
    return {"endian": rnd.choice("<>"), "align": rnd.random() < 0.5, "ptr": rnd.choice([1, 2, 4, 8])}


def gen_scenario(rnd, cfg=None, mode=None, top_union=0.12):
    """A random definition: returns dict(type, mode, consts, defs)."""
    mode = mode or gen_mode(rnd)
    g = Gen(rnd, mode, cfg)
    while True:
        t = g.struct(union=(rnd.random() < top_union and g.cfg["union"]))
        if not absyn.has_dup_names(t):
            break
    return {"type": t, "mode": mode, "consts": dict(g.consts), "defs": absyn.render(t, g.consts)}


def start_for(rnd, scn):
    """Start offsets: arbitrary in packed mode, multiples of 16 (>= every alignment) in aligned mode."""
    if scn["mode"]["align"]:
        return rnd.choice([0, 0, 16, 32])
    return rnd.choice([0, 0, 1, 3, 8, 17])


def parse_record(rid, scn, data, start, compiled, *, both=False, kind="parse", extra=None):
    """Load the definition and record one parse (optionally with the other reader as `res2`)."""
    t, mode = scn["type"], scn["mode"]
    rec = {"id": rid, "kind": kind, "type": t, "mode": mode, "consts": scn["consts"] or {"_": 0},
           "input": list(data), "start": start, "defs": scn["defs"], "req_compiled": compiled}
    try:
        cs = load(scn["defs"], mode, compiled)
        T = getattr(cs, t["name"])
    except Exception as e:  # noqa: BLE001
        rec["loaderr"] = f"{type(e).__name__}: {e}"[:300]
        return rec
    obs = {"layout": project_layout(T), "res": observe_parse(T, t, data, start)}
    if compiled:
        obs["compiled"] = bool(T.__compiled__)
    if both:
        try:
            cs2 = load(scn["defs"], mode, not compiled)
            T2 = getattr(cs2, t["name"])
            obs["layout2"] = project_layout(T2)
            obs["res2"] = observe_parse(T2, t, data, start, with_dump=False)
        except Exception as e:  # noqa: BLE001
            rec["loaderr"] = f"other reader: {type(e).__name__}: {e}"[:300]
            return rec
    rec["obs"] = obs
    if extra:
        rec.update(extra)
    return rec


def random_batch(n, seed, cfg=None, *, compiled=None, both=False, first_id=0):
    rnd = random.Random(seed)
    out = []
    for i in range(n):
        scn = gen_scenario(rnd, cfg)
        start = start_for(rnd, scn)
        data = gen_input(rnd, start)
        c = (rnd.random() < 0.5) if compiled is None else compiled
        out.append(parse_record(first_id + i, scn, data, start, c, both=both))
    return out
