"""E2 driver for the codec family: build scenarios, run the real library, record observations for Trace_Codec."""
from __future__ import annotations

import io
import sys
import random

from harness import absyn
from harness.absyn import Gen, project, project_layout

NONE_V = {"k": "none"}
NO_DUMP = {"status": "none", "b": [], "exc": ""}
NO_RE = {"status": "none", "v": NONE_V, "pos": 0}


def spelled(mode, endian=None):
    """The byte order as it is handed to the library: mode["spelling"] says how the order mode["endian"] is written ("<" or, on
    this little-endian host, "@" / "="; ">" or "!").  The specification only knows the MEANING ("<" / ">")."""
    e = endian or mode["endian"]
    sp = mode.get("spelling")
    if sp is None:
        return e
    return {"<": sp if sp in ("@", "=") else "<", ">": "!" if sp in ("!", "@", "=") else ">"}[e]


def new_cs(mode):
    from dissect.cstruct import cstruct

    return cstruct(endian=spelled(mode), pointer=absyn.PTRTYPES[mode["ptr"]])


class Defs(str):
    """Definition text that is loaded in several load() calls with different align= settings: parts = [(text, align), ...]."""
    parts = None


def load(defs, mode, compiled):
    # mode["loaded_as"]: the byte order the object had WHILE the definitions were loaded (and compiled); it is switched to
    # mode["endian"] afterwards - the byte order in force at call time is the one that counts (C05), for both readers (C03)
    cs = new_cs(dict(mode, endian=mode.get("loaded_as", mode["endian"]), ptr=mode.get("preload_ptr", mode["ptr"])))
    if "preload_ptr" in mode:
        # the object was used before, under ANOTHER pointer width, for definitions with pointers to the same targets: what is
        # declared after the switch has the width configured then (nothing about a pointer type may be remembered per target)
        cs.load("struct PRE_ { uint8 *a; char *b; uint16 *c; uint32 *d; uint8 **e; };")
        cs.pointer = cs.resolve(absyn.PTRTYPES[mode["ptr"]])
    if getattr(defs, "parts", None):
        for text, align in defs.parts:
            cs.load(text, compiled=compiled, align=align)
    else:
        cs.load(defs, compiled=compiled, align=mode["align"])
    if "loaded_as" in mode:
        cs.endian = spelled(mode)
    return cs


def mix_alignment(scn, rnd):
    """load() takes align= per call: give every separately declared structure / union of the scenario its own setting (the top
    one keeps the mode's), structures declared in place inherit the setting of the declaration they are part of.  Every
    structure node of the abstract type records its setting (`align`), the definitions are loaded in groups."""
    import copy

    t = copy.deepcopy(scn["type"])
    flags = {}

    def walk(node, flag):
        k = node["k"]
        if k in ("arr",):
            walk(node["elem"], flag)
        elif k == "ptr":
            if "selfname" not in node:
                walk(node["target"], flag)
        elif k in ("struct", "union"):
            node["align"] = flag
            for f in node["fields"]:
                ft = f["type"]
                base = ft
                while base["k"] in ("arr", "ptr") and "selfname" not in base:
                    base = base["elem"] if base["k"] == "arr" else base["target"]
                if base["k"] in ("struct", "union") and not (f.get("anon") or f.get("inline")):
                    fl = flags.setdefault(base["name"], rnd.random() < 0.5)
                    walk(ft, fl)
                else:
                    walk(ft, flag)

    flags[t["name"]] = scn["mode"]["align"]
    walk(t, scn["mode"]["align"])
    if len(set(flags.values())) < 2:
        return None
    r = absyn.Renderer()
    r.ensure(t)
    head = "".join(f"#define {k} {v}\n" for k, v in (scn["consts"] or {}).items())
    parts = []
    for name, text in r.defs:
        fl = flags.get(name, parts[-1][1] if parts else scn["mode"]["align"])
        if parts and parts[-1][1] == fl:
            parts[-1][0] += "\n" + text
        else:
            parts.append([text, fl])
    parts[0][0] = head + parts[0][0]
    defs = Defs("\n".join(f"/* load(align={a}) */ {tx}" for tx, a in parts))
    defs.parts = [(tx, a) for tx, a in parts]
    return dict(scn, type=t, defs=defs)


def classify(e):
    if isinstance(e, EOFError):
        return "eof"
    if isinstance(e, UnicodeDecodeError):
        return "decode"
    return "error"


def sizes_of(v, T):
    from dissect.cstruct.types import Structure

    if not (isinstance(T, type) and issubclass(T, Structure)):
        return []
    s = getattr(v, "_sizes", None) or {}
    return [int(s.get(f._name, -1)) if not f.bits else -1 for f in T.__fields__]


def observe_parse(T, t, data, start, *, with_dump=True, opener=None, call=None):
    """Parse T from `data` at offset `start`; returns the `res` record."""
    stream = opener(data) if opener else io.BytesIO(data)
    stream.seek(start)
    err = None
    try:
        v = call(T, stream) if call else T.read(stream)
    except MemoryError:
        # nothing may be allocated here: the frames of the failed call still hold what exhausted the limit (framework.main)
        err = ("error", "MemoryError: the call asked for more memory than the harness allows")
    except Exception as e:  # noqa: BLE001 - every outcome is an observation
        err = (classify(e), f"{type(e).__name__}: {e}"[:200])
    if err:
        if err[1].startswith("MemoryError"):
            import gc

            gc.collect()
        return {"status": err[0], "exc": err[1], "v": NONE_V, "pos": 0, "sizes": [], "dump": NO_DUMP, "re": NO_RE}
    res = {"status": "ok", "exc": "", "v": project(v, t), "pos": stream.tell(), "sizes": sizes_of(v, T),
           "dump": NO_DUMP, "re": NO_RE}
    if with_dump:
        res["dump"], res["re"] = observe_dump(T, t, v)
    return res


def observe_dump(T, t, v):
    try:
        b = v.dumps() if hasattr(v, "dumps") else T.dumps(v)
    except Exception as e:  # noqa: BLE001
        return {"status": "error", "b": [], "exc": f"{type(e).__name__}: {e}"[:200]}, NO_RE
    dump = {"status": "ok", "b": list(b), "exc": ""}
    try:
        # the count write() reports, next to what it actually put on the stream
        w = io.BytesIO()
        n = v.write(w) if hasattr(v, "write") else T.write(w, v)
        dump["wcount"] = n if isinstance(n, int) and not isinstance(n, bool) and w.getvalue() == b else -1
    except Exception:  # noqa: BLE001
        dump["wcount"] = -1
    st = io.BytesIO(b)
    try:
        v2 = T.read(st)
        re = {"status": "ok", "v": project(v2, t), "pos": st.tell()}
    except Exception as e:  # noqa: BLE001
        re = {"status": classify(e), "v": NONE_V, "pos": 0, "exc": f"{type(e).__name__}: {e}"[:200]}
    return dump, re


ALPHABETS = [
    lambda r: r.choice([0, 0, 0, 1, 2, 3, 0x7F, 0x80, 0xFF, r.randrange(256)]),
    lambda r: r.randrange(256),
    lambda r: r.choice([0, 1, 0x7F, 0x80, 0xFF]),
]


def gen_input(rnd, start, maxlen=96):
    form = rnd.random()
    n = rnd.randrange(0, maxlen)
    if form < 0.15:
        body = bytes(((i + 1) & 0xFF) for i in range(n))            # ramp: every moved / dropped byte is visible
    elif form < 0.25:
        body = bytes([rnd.choice([0xFF, 0x80, 0x00])]) * n
    else:
        a = rnd.choice(ALPHABETS)
        body = bytes(a(rnd) for _ in range(n))
    prefix = bytes(rnd.randrange(256) for _ in range(start))
    return prefix + body


def gen_mode(rnd):
    # pointer widths: the struct-packed ones, and now and then an integer type that is not (uint24 / uint48 / uint128)
    mode = {"endian": rnd.choice("<>"), "align": rnd.random() < 0.5, "ptr": rnd.choice([1, 2, 4, 8, 1, 2, 4, 8, 3, 6, 16])}
    if rnd.random() < 0.25 and sys.byteorder == "little":
        # the other spellings of a byte order: native ("@", "=") for little endian on this host, network ("!") for big endian
        mode["spelling"] = rnd.choice("@=") if mode["endian"] == "<" else "!"
    return mode


def gen_scenario(rnd, cfg=None, mode=None, top_union=0.12):
    """A random definition: returns dict(type, mode, consts, defs)."""
    mode = mode or gen_mode(rnd)
    g = Gen(rnd, mode, cfg)
    while True:
        t = g.struct(union=(rnd.random() < top_union and g.cfg["union"]))
        if not absyn.has_dup_names(t):
            break
    if g.cfg.get("endian_switch", True) and rnd.random() < 0.1:
        mode = dict(mode, loaded_as="<" if mode["endian"] == ">" else ">")
    scn = {"type": t, "mode": mode, "consts": dict(g.consts), "defs": absyn.render(t, g.consts)}
    if g.cfg.get("mixalign", True) and rnd.random() < 0.12:
        return mix_alignment(scn, rnd) or scn
    return scn


def start_for(rnd, scn):
    """Start offsets are arbitrary in both modes: alignment inside a structure is relative to its first byte (finding F35)."""
    return rnd.choice([0, 0, 1, 3, 8, 16, 17])


def parse_record(rid, scn, data, start, compiled, *, both=False, kind="parse", extra=None):
    """Load the definition and record one parse (optionally with the other reader as `res2`)."""
    t, mode = scn["type"], scn["mode"]
    rec = {"id": rid, "kind": kind, "type": t, "mode": mode, "consts": scn["consts"] or {"_": 0},
           "input": list(data), "start": start, "defs": scn["defs"], "req_compiled": compiled}
    try:
        cs = load(scn["defs"], mode, compiled)
        T = getattr(cs, t["name"])
    except Exception as e:  # noqa: BLE001
        rec["loaderr"] = f"{type(e).__name__}: {e}"[:300]
        return rec
    obs = {"layout": project_layout(T), "res": observe_parse(T, t, data, start)}
    if compiled:
        obs["compiled"] = bool(T.__compiled__)
        shape = plan_shape(T) if T.__compiled__ else None
        if shape is not None and not any(f.get("anon") for f in t["fields"]):
            obs["plan"] = shape
    if both:
        try:
            cs2 = load(scn["defs"], mode, not compiled)
            T2 = getattr(cs2, t["name"])
            obs["layout2"] = project_layout(T2)
            obs["res2"] = observe_parse(T2, t, data, start, with_dump=False)
        except Exception as e:  # noqa: BLE001
            rec["loaderr"] = f"other reader: {type(e).__name__}: {e}"[:300]
            return rec
    rec["obs"] = obs
    if extra:
        rec.update(extra)
    return rec


def random_batch(n, seed, cfg=None, *, compiled=None, both=False, first_id=0):
    rnd = random.Random(seed)
    out = []
    for i in range(n):
        scn = gen_scenario(rnd, cfg)
        start = start_for(rnd, scn)
        data = gen_input(rnd, start)
        c = (rnd.random() < 0.5) if compiled is None else compiled
        out.append(parse_record(first_id + i, scn, data, start, c, both=both))
    return out


def value_record(rid, scn, v, compiled, tag="value"):
    """Construct the abstract value v as a real object, dump it and parse the dump back."""
    t, mode = scn["type"], scn["mode"]
    rec = {"id": rid, "kind": "value", "type": t, "mode": mode, "consts": scn["consts"] or {"_": 0}, "v": v,
           "defs": scn["defs"], "req_compiled": compiled, "tag": tag, "input": [], "start": 0}
    try:
        cs = load(scn["defs"], mode, compiled)
        T = getattr(cs, t["name"])
    except Exception as e:  # noqa: BLE001
        rec["loaderr"] = f"{type(e).__name__}: {e}"[:300]
        return rec
    try:
        real = absyn.unproject(v, t, T)
    except Exception as e:  # noqa: BLE001 - refusing the number at construction time is a refusal too
        rec["obs"] = {"dump": {"status": "error", "b": [], "exc": f"construct: {type(e).__name__}: {e}"[:200]}, "re": NO_RE}
        return rec
    dump, re = observe_dump(T, t, real)
    rec["obs"] = {"dump": dump, "re": re}
    return rec


def value_batch(n, seed, cfg=None, first_id=0):
    """Directly constructed values (round trip) and values with one number that does not fit (refusal)."""
    rnd = random.Random(seed)
    cfg = dict(cfg or {}, union=False, eof=False)   # an inner [EOF] array makes a value non round-trippable by definition
    out = []
    while len(out) < n:
        scn = gen_scenario(rnd, cfg, top_union=0)
        t, mode = scn["type"], scn["mode"]
        compiled = rnd.random() < 0.5
        try:
            v = absyn.gen_value(rnd, t, mode, scn["consts"])
        except Exception:  # noqa: BLE001 - inconsistent shapes are not values of the type
            continue
        out.append(value_record(first_id + len(out), scn, v, compiled))
        leaves = list(absyn.leaf_paths(t, mode))
        if leaves:
            path, leaf = rnd.choice(leaves)
            bad = absyn.set_leaf(v, path, absyn.misfit(rnd, leaf, mode))
            if bad is not None:
                out.append(value_record(first_id + len(out), scn, bad, compiled, tag="misfit"))
    return out


# ------------------------------------------------------------------------------------------ C04 / C09 observations
class MiniFile:
    """A minimal file-like object: read / seek / tell only."""

    def __init__(self, data):
        self._b = io.BytesIO(data)

    def read(self, n=-1):
        return self._b.read(n)

    def seek(self, pos, whence=0):
        return self._b.seek(pos, whence)

    def tell(self):
        return self._b.tell()


FORMS = ("call", "read", "reads", "csread")
KINDS = ("bytes", "bytearray", "memoryview", "bytesio", "minifile")


def observe_forms(cs, T, t, data, start):
    """The same parse through every call form x input kind.  Buffer kinds receive data[start:]."""
    out = []
    name = t["name"]
    for kind in KINDS:
        for form in FORMS:
            stream_kind = kind in ("bytesio", "minifile")
            if form == "reads" and stream_kind:
                continue
            if stream_kind:
                x = io.BytesIO(data) if kind == "bytesio" else MiniFile(data)
                x.seek(start)
            else:
                x = {"bytes": bytes, "bytearray": bytearray, "memoryview": memoryview}[kind](data[start:])
            try:
                if form == "call":
                    v = T(x)
                elif form == "read":
                    v = T.read(x)
                elif form == "reads":
                    v = T.reads(x)
                else:
                    v = cs.read(name, x)
                ent = {"form": form, "kind": kind, "status": "ok", "v": project(v, t), "sizes": sizes_of(v, T),
                       "pos": x.tell() if stream_kind else -1}
            except Exception as e:  # noqa: BLE001
                ent = {"form": form, "kind": kind, "status": classify(e), "v": NONE_V, "sizes": [], "pos": -1,
                       "exc": f"{type(e).__name__}: {e}"[:160]}
            out.append(ent)
    return out


def enrich(rec, *, sizeof=False, forms=False):
    """Re-load the record's definition and add the C04 (sizeof) / C09 (forms x kinds) observations."""
    if "obs" not in rec:
        return rec
    from dissect.cstruct import Expression

    t, mode = rec["type"], rec["mode"]
    cs = load(rec["defs"], mode, rec["req_compiled"])
    T = getattr(cs, t["name"])
    if sizeof:
        try:
            rec["obs"]["sizeof"] = int(Expression(cs, f"sizeof({t['name']})").evaluate())
        except TypeError:
            rec["obs"]["sizeof"] = -1
        except Exception as e:  # noqa: BLE001
            rec["obs"]["sizeof"] = -2
            rec["obs"]["sizeof_exc"] = f"{type(e).__name__}: {e}"[:160]
    if forms:
        rec["obs"]["forms"] = observe_forms(cs, T, t, bytes(rec["input"]), rec["start"])
    return rec


def history_records(rid, scn, rnd, compiled, count=3):
    """Several parses of the same type, one after the other on one stream: each is its own recorded execution."""
    t, mode = scn["type"], scn["mode"]
    out = []
    try:
        cs = load(scn["defs"], mode, compiled)
        T = getattr(cs, t["name"])
    except Exception as e:  # noqa: BLE001
        return [{"id": rid, "kind": "parse", "type": t, "mode": mode, "defs": scn["defs"], "req_compiled": compiled,
                 "loaderr": f"{type(e).__name__}: {e}"[:300]}]
    data = gen_input(rnd, 0, maxlen=200)
    stream = io.BytesIO(data)
    for i in range(count):
        start = stream.tell()
        rec = {"id": rid + i, "kind": "parse", "type": t, "mode": mode, "consts": scn["consts"] or {"_": 0}, "input": list(data),
               "start": start, "defs": scn["defs"], "req_compiled": compiled, "tag": f"history-{i}"}
        try:
            v = T.read(stream)
            res = {"status": "ok", "exc": "", "v": project(v, t), "pos": stream.tell(), "sizes": sizes_of(v, T), "dump": NO_DUMP, "re": NO_RE}
            res["dump"], res["re"] = observe_dump(T, t, v)
        except Exception as e:  # noqa: BLE001
            res = {"status": classify(e), "exc": f"{type(e).__name__}: {e}"[:200], "v": NONE_V, "pos": 0, "sizes": [], "dump": NO_DUMP, "re": NO_RE}
        rec["obs"] = {"layout": project_layout(T), "res": res}
        out.append(rec)
        if res["status"] != "ok" or stream.tell() >= len(data):
            break
    return out


# ------------------------------------------------------------------------------------------ C08: cuts and stream faults
class InjectedFault(OSError):
    pass


class FaultyStream:
    """A seekable stream whose k-th read call (0-based, counting calls that request at least one byte) either
    delivers fewer bytes than requested (advancing only by what it delivered) or raises InjectedFault."""

    def __init__(self, data, fault_call=None, kind="short", less=1):
        self._b = io.BytesIO(data)
        self.fault_call, self.kind, self.less = fault_call, kind, less
        self.calls = []        # (requested, position) of every read call
        self.n = 0

    def read(self, n=-1):
        pos = self._b.tell()
        self.calls.append((n, pos))
        counted = n is None or n != 0
        k = self.n
        if counted:
            self.n += 1
        if counted and k == self.fault_call:
            if self.kind == "raise":
                raise InjectedFault("injected stream fault")
            data = self._b.read(n)
            short = data[: max(0, len(data) - self.less)]
            self._b.seek(pos + len(short))
            return short
        return self._b.read(n)

    def seek(self, pos, whence=0):
        return self._b.seek(pos, whence)

    def tell(self):
        return self._b.tell()


def classify_fault(e):
    if isinstance(e, InjectedFault):
        return "injected"
    return classify(e)


def cut_and_fault_records(rid, scn, data, start, compiled, rnd, *, max_cuts=64, max_faults=24):
    """All cuts of an accepted input, every single stream fault of its clean run, and a clean parse afterwards
    (no residue).  Returns a list of records for Trace_Codec."""
    t, mode = scn["type"], scn["mode"]
    base = {"type": t, "mode": mode, "consts": scn["consts"] or {"_": 0}, "defs": scn["defs"], "req_compiled": compiled}
    try:
        cs = load(scn["defs"], mode, compiled)
        T = getattr(cs, t["name"])
    except Exception as e:  # noqa: BLE001
        return [dict(base, id=rid, kind="parse", loaderr=f"{type(e).__name__}: {e}"[:300])]
    out = []
    lay = project_layout(T)
    clean = FaultyStream(data)
    clean.seek(start)
    try:
        T.read(clean)
        end = clean.tell()
    except Exception:  # noqa: BLE001
        end = len(data)
    # every cut point (sampled when there are many)
    cuts = list(range(start, min(len(data), end + 2) + 1))
    if len(cuts) > max_cuts:
        cuts = sorted(rnd.sample(cuts, max_cuts))
    for k in cuts:
        res = observe_parse(T, t, data[:k], start, with_dump=False)
        out.append(dict(base, id=rid + len(out), kind="parse", input=list(data[:k]), start=start, tag=f"cut@{k}",
                        obs={"layout": lay, "res": res}))
    # every single fault position of the clean run
    ncalls = clean.n
    faults = [(i, kind) for i in range(ncalls) for kind in ("short", "raise")]
    if len(faults) > max_faults:
        faults = rnd.sample(faults, max_faults)
    for i, kind in faults:
        st = FaultyStream(data, i, kind, less=rnd.choice([1, 1, 2, 100]))
        st.seek(start)
        try:
            v = T.read(st)
            res = {"status": "ok", "exc": "", "v": project(v, t), "pos": st.tell(), "sizes": sizes_of(v, T), "dump": NO_DUMP, "re": NO_RE}
        except Exception as e:  # noqa: BLE001
            res = {"status": classify_fault(e), "exc": f"{type(e).__name__}: {e}"[:200], "v": NONE_V, "pos": 0, "sizes": [],
                   "dump": NO_DUMP, "re": NO_RE}
        out.append(dict(base, id=rid + len(out), kind="fault", input=list(data), start=start, tag=f"fault@{i}:{kind}",
                        fault={"call": i, "kind": kind}, obs={"layout": lay, "res": res}))
        # no residue: the same types parse the complete input as if nothing had happened
        if rnd.random() < 0.3:
            res2 = observe_parse(T, t, data, start, with_dump=False)
            out.append(dict(base, id=rid + len(out), kind="parse", input=list(data), start=start, tag="after-fault",
                            obs={"layout": lay, "res": res2}))
    return out


def load_record(rid, scn, compiled):
    """Does the definition load?  (Judged against WellFormed by Trace_Codec.)"""
    t, mode = scn["type"], scn["mode"]
    rec = {"id": rid, "kind": "load", "type": t, "mode": mode, "consts": scn["consts"] or {"_": 0}, "defs": scn["defs"],
           "req_compiled": compiled, "input": [], "start": 0}
    try:
        load(scn["defs"], mode, compiled)
        rec["loaded"] = True
    except Exception as e:  # noqa: BLE001
        rec["loaded"] = False
        rec["exc"] = f"{type(e).__name__}: {e}"[:200]
    return rec



# ------------------------------------------------------------------------------------------ C04: the C ABI as seen by ctypes
CT = {"int8": "c_int8", "uint8": "c_uint8", "int16": "c_int16", "uint16": "c_uint16", "int32": "c_int32", "uint32": "c_uint32",
      "int64": "c_int64", "uint64": "c_uint64"}


def ctypes_of(t, packed, cache):
    import ctypes

    k = t["k"]
    if k == "int":
        return getattr(ctypes, CT[t["name"]])
    if k == "float":
        return {4: ctypes.c_float, 8: ctypes.c_double}[t["size"]]
    if k == "char":
        return ctypes.c_char
    if k == "ptr":
        return ctypes.c_void_p
    if k == "arr":
        return ctypes_of(t["elem"], packed, cache) * t["len"]["n"]
    if k in ("struct", "union"):
        key = (t["name"], packed)
        if key not in cache:
            base = ctypes.Structure if k == "struct" else ctypes.Union
            ns = {"_fields_": [(f["name"], ctypes_of(f["type"], packed, cache)) for f in t["fields"]]}
            if packed:
                ns["_pack_"] = 1
            cache[key] = type(t["name"], (base,), ns)
        return cache[key]
    raise ValueError(k)


def ctypes_records(n, seed, first_id=0):
    """Random declarations of C scalars, arrays, nested structs and unions laid out by ctypes (native / packed)."""
    import ctypes

    rnd = random.Random(seed)
    out = []
    names = list(CT)
    cnt = [0]

    def gen(depth, union=False):
        cnt[0] += 1
        fields = []
        for i in range(rnd.randrange(1, 6)):
            r = rnd.random()
            if r < 0.5:
                t = absyn.t_int(rnd.choice(names))
            elif r < 0.6:
                t = absyn.t_float(rnd.choice(["float", "double"]))
            elif r < 0.68:
                t = absyn.t_char()
            elif r < 0.75:
                t = absyn.t_ptr(absyn.t_int("uint8"))
            elif r < 0.88 or depth == 0:
                t = absyn.t_arr(absyn.t_int(rnd.choice(names)) if rnd.random() < 0.7 or depth == 0 else gen(depth - 1), absyn.L_fixed(rnd.randrange(1, 4)))
                if rnd.random() < 0.2:
                    t = absyn.t_arr(t, absyn.L_fixed(rnd.randrange(1, 3)))
            else:
                t = gen(depth - 1, union=rnd.random() < 0.3)
            fields.append(absyn.field(f"m{i}", t))
        return absyn.t_struct(f"c{cnt[0]}", fields, union)

    for i in range(n):
        t = gen(2, union=rnd.random() < 0.1)
        packed = rnd.random() < 0.4
        cls = ctypes_of(t, packed, {})
        lay = {"size": ctypes.sizeof(cls), "align": ctypes.alignment(cls),
               "offs": [getattr(cls, f["name"]).offset for f in t["fields"]] if t["k"] == "struct" else [-1] * len(t["fields"])}
        out.append({"id": first_id + i, "kind": "ctypes", "type": t, "mode": {"endian": "<", "align": not packed, "ptr": ctypes.sizeof(ctypes.c_void_p)},
                    "consts": {"_": 0}, "defs": absyn.render(t) + ("  /* ctypes, _pack_=1 */" if packed else "  /* ctypes, native */"),
                    "obs": {"layout": lay}, "input": [], "start": 0})
    return out



# ------------------------------------------------------------------------------------------ C03: generated source -> plan shape
import re as _re

_SEEK = _re.compile(r"stream\.seek\(o \+ (\d+)\)")
_ALIGN = _re.compile(r"stream\.seek\(-\(stream\.tell\(\) - o\) & \((\d+) - 1\), 1\)")
_TAIL = _re.compile(r"stream\.seek\(-\(stream\.tell\(\) - o\) & \(cls\.alignment - 1\), 1\)")
_READ = _re.compile(r"buf = stream\.read\((\d+)\)")
_FIELD = _re.compile(r'r\["([^"]+)"\] = (.*)')


def plan_shape(T):
    """The operations of a generated reader, read off its source text (None for interpreted readers)."""
    src = getattr(getattr(T._read, "__func__", None), "__source__", None)
    if src is None:
        return None
    ops = []
    block = None
    for line in src.splitlines():
        line = line.strip()
        m = _SEEK.fullmatch(line)
        if m:
            ops.append({"op": "seek", "n": int(m.group(1)), "names": []})
            block = None
            continue
        m = _ALIGN.fullmatch(line)
        if m:
            ops.append({"op": "align", "n": int(m.group(1)), "names": []})
            block = None
            continue
        if _TAIL.fullmatch(line):
            ops.append({"op": "tailalign", "n": 0, "names": []})
            block = None
            continue
        if line == "bit_reader.reset()":
            ops.append({"op": "bitreset", "n": 0, "names": []})
            block = None
            continue
        m = _READ.fullmatch(line)
        if m:
            block = {"op": "block", "n": int(m.group(1)), "names": []}
            ops.append(block)
            continue
        m = _FIELD.fullmatch(line)
        if m:
            name, rhs = m.group(1), m.group(2)
            if "bit_reader.read(" in rhs:
                ops.append({"op": "bits", "n": 0, "names": [name]})
                block = None
            elif "._read(stream, context=r)" in rhs or "._read(stream, context=c)" in rhs:
                ops.append({"op": "sub", "n": 0, "names": [name]})
                block = None
            elif block is not None:
                block["names"].append(name)
    return ops
