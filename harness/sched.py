"""E4: deterministic line-level scheduler for real threads (C15).

A schedule is a list of slices (thread id, number of traced line events); after the listed slices every thread runs
to completion in thread order.  Line events are counted in frames of dissect/cstruct/* and of generated
`<compiled ...>` readers.  Exactly one thread runs at any time (hand-over through semaphores), so a schedule
determines the execution completely."""
from __future__ import annotations

import sys
import threading

TRACKED = ("/dissect/cstruct/", "<compiled ")


def _tracked(frame):
    fn = frame.f_code.co_filename
    return TRACKED[0] in fn or fn.startswith(TRACKED[1])


class Run:
    def __init__(self, funcs, plan):
        self.funcs = funcs
        self.n = len(funcs)
        self.plan = list(plan) + [(t, None) for t in range(self.n)]
        self.idx = 0
        self.left = self.plan[0][1]
        self.sems = [threading.Semaphore(0) for _ in range(self.n)]
        self.done = [False] * self.n
        self.results = [None] * self.n
        self.lines = [0] * self.n
        self.lock = threading.Lock()

    # -- scheduling core (always called by the thread that currently owns the CPU)
    def _advance(self, me, finished):
        """Move to the next slice whose thread is alive; returns the thread that runs next (None = nobody left)."""
        while True:
            self.idx += 1
            if self.idx >= len(self.plan):
                return None
            t, budget = self.plan[self.idx]
            if not self.done[t]:
                self.left = budget
                return t

    def _switch(self, me, finished=False):
        nxt = self._advance(me, finished)
        if nxt is None or nxt == me:
            return
        self.sems[nxt].release()
        if not finished:
            self.sems[me].acquire()

    def _local(self, tid):
        def local(frame, event, arg):
            if event == "line":
                self.lines[tid] += 1
                if self.plan[self.idx][0] == tid and self.left is not None:
                    self.left -= 1
                    if self.left <= 0:
                        self._switch(tid)
            return local
        return local

    def _global(self, tid):
        loc = self._local(tid)

        def glob(frame, event, arg):
            return loc if _tracked(frame) else None
        return glob

    def _body(self, tid):
        if self.plan[0][0] != tid:
            self.sems[tid].acquire()
        sys.settrace(self._global(tid))
        try:
            self.results[tid] = ("ok", self.funcs[tid]())
        except BaseException as e:  # noqa: BLE001 - every outcome is an observation
            self.results[tid] = ("exc", e)
        finally:
            sys.settrace(None)
            self.done[tid] = True
            self._switch(tid, finished=True)

    def run(self):
        first = self.plan[0][0]
        # make sure the first slice belongs to a live thread
        ths = [threading.Thread(target=self._body, args=(t,), daemon=True) for t in range(self.n)]
        for t in ths:
            t.start()
        for t in ths:
            t.join(timeout=180)     # a schedule takes milliseconds; the margin is for a machine busy with other checks
        if any(t.is_alive() for t in ths):
            raise RuntimeError(f"schedule {self.plan[:4]} deadlocked (first={first})")
        return self.results, self.lines


def solo_lines(func):
    """Number of traced line events of one call running alone."""
    r = Run([func], [(0, None)])
    res, lines = r.run()
    return res[0], lines[0]
