---------------------------- MODULE AlignLemmas ----------------------------
(***************************************************************************)
(* Unbounded facts about the alignment operators of module Ints (used by   *)
(* Layout, Codec, PlanSpec, MC_Reader, MC_Writer), proved with TLAPS for   *)
(* EVERY offset and every alignment that exists in the type system (1, 2,  *)
(* 4, 8, 16): TLC evaluates the operators on the offsets of the bounded    *)
(* universes only.  The operators are restated literally (module Ints      *)
(* pulls in recursive operators the prover has no use for);                *)
(* tools/check_proofs.sh compares the two texts and runs tlapm.            *)
(***************************************************************************)
EXTENDS Integers, TLAPS

AlignUp(o, a) == o + ((a - (o % a)) % a)
AlignRel(p, start, a) == start + AlignUp(p - start, a)

Alignments == {1, 2, 4, 8, 16}

LEMMA K1 == \A o \in Nat : ((1 - (o % 1)) % 1) \in 0..0  BY Z3T(60)
LEMMA M1 == \A o \in Nat : (o + ((1 - (o % 1)) % 1)) % 1 = 0  BY Z3T(120)
LEMMA F1 == \A o \in Nat : (o % 1 = 0 => o + ((1 - (o % 1)) % 1) = o)  BY Z3T(60)
LEMMA Up1 == \A o \in Nat : /\ o + ((1 - (o % 1)) % 1) \in Nat
                           /\ o + ((1 - (o % 1)) % 1) >= o
                           /\ o + ((1 - (o % 1)) % 1) < o + 1
                           /\ (o + ((1 - (o % 1)) % 1)) % 1 = 0
                           /\ (o % 1 = 0 => o + ((1 - (o % 1)) % 1) = o)
  BY K1, M1, F1, Z3T(60)
LEMMA Rel1 == \A s \in Nat, p \in Nat : p >= s /\ s % 1 = 0 =>
                    s + ((p - s) + ((1 - ((p - s) % 1)) % 1)) = p + ((1 - (p % 1)) % 1)
  BY Z3T(120)
LEMMA K2 == \A o \in Nat : ((2 - (o % 2)) % 2) \in 0..1  BY Z3T(60)
LEMMA M2 == \A o \in Nat : (o + ((2 - (o % 2)) % 2)) % 2 = 0  BY Z3T(120)
LEMMA F2 == \A o \in Nat : (o % 2 = 0 => o + ((2 - (o % 2)) % 2) = o)  BY Z3T(60)
LEMMA Up2 == \A o \in Nat : /\ o + ((2 - (o % 2)) % 2) \in Nat
                           /\ o + ((2 - (o % 2)) % 2) >= o
                           /\ o + ((2 - (o % 2)) % 2) < o + 2
                           /\ (o + ((2 - (o % 2)) % 2)) % 2 = 0
                           /\ (o % 2 = 0 => o + ((2 - (o % 2)) % 2) = o)
  BY K2, M2, F2, Z3T(60)
LEMMA Rel2 == \A s \in Nat, p \in Nat : p >= s /\ s % 2 = 0 =>
                    s + ((p - s) + ((2 - ((p - s) % 2)) % 2)) = p + ((2 - (p % 2)) % 2)
  BY Z3T(120)
LEMMA K4 == \A o \in Nat : ((4 - (o % 4)) % 4) \in 0..3  BY Z3T(60)
LEMMA M4 == \A o \in Nat : (o + ((4 - (o % 4)) % 4)) % 4 = 0  BY Z3T(120)
LEMMA F4 == \A o \in Nat : (o % 4 = 0 => o + ((4 - (o % 4)) % 4) = o)  BY Z3T(60)
LEMMA Up4 == \A o \in Nat : /\ o + ((4 - (o % 4)) % 4) \in Nat
                           /\ o + ((4 - (o % 4)) % 4) >= o
                           /\ o + ((4 - (o % 4)) % 4) < o + 4
                           /\ (o + ((4 - (o % 4)) % 4)) % 4 = 0
                           /\ (o % 4 = 0 => o + ((4 - (o % 4)) % 4) = o)
  BY K4, M4, F4, Z3T(60)
LEMMA Rel4 == \A s \in Nat, p \in Nat : p >= s /\ s % 4 = 0 =>
                    s + ((p - s) + ((4 - ((p - s) % 4)) % 4)) = p + ((4 - (p % 4)) % 4)
  BY Z3T(120)
LEMMA K8 == \A o \in Nat : ((8 - (o % 8)) % 8) \in 0..7  BY Z3T(60)
LEMMA M8 == \A o \in Nat : (o + ((8 - (o % 8)) % 8)) % 8 = 0
  <1> TAKE o \in Nat
  <1> DEFINE r == o % 8
  <1> DEFINE q == o \div 8
  <1>1. r \in 0..7 /\ q \in Nat /\ o = 8 * q + r
    BY Z3T(60)
  <1> HIDE DEF r, q
  <1>2. ((8 - r) % 8) = IF r = 0 THEN 0 ELSE 8 - r
    BY <1>1, Z3T(60)
  <1>3. CASE r = 0
    <2>1. o + ((8 - r) % 8) = 8 * q
      BY <1>1, <1>2, <1>3
    <2>2. (8 * q) % 8 = 0
      BY <1>1, Z3T(60)
    <2> QED BY <2>1, <2>2 DEF r, q
  <1>4. CASE r # 0
    <2>1. o + ((8 - r) % 8) = 8 * (q + 1)
      BY <1>1, <1>2, <1>4, Z3T(60)
    <2>2. (8 * (q + 1)) % 8 = 0
      BY <1>1, Z3T(60)
    <2> QED BY <2>1, <2>2 DEF r, q
  <1> QED BY <1>3, <1>4
LEMMA F8 == \A o \in Nat : (o % 8 = 0 => o + ((8 - (o % 8)) % 8) = o)  BY Z3T(60)
LEMMA Up8 == \A o \in Nat : /\ o + ((8 - (o % 8)) % 8) \in Nat
                           /\ o + ((8 - (o % 8)) % 8) >= o
                           /\ o + ((8 - (o % 8)) % 8) < o + 8
                           /\ (o + ((8 - (o % 8)) % 8)) % 8 = 0
                           /\ (o % 8 = 0 => o + ((8 - (o % 8)) % 8) = o)
  BY K8, M8, F8, Z3T(60)
LEMMA Rel8 == \A s \in Nat, p \in Nat : p >= s /\ s % 8 = 0 =>
                    s + ((p - s) + ((8 - ((p - s) % 8)) % 8)) = p + ((8 - (p % 8)) % 8)
  BY Z3T(120)
LEMMA K16 == \A o \in Nat : ((16 - (o % 16)) % 16) \in 0..15  BY Z3T(60)
LEMMA M16 == \A o \in Nat : (o + ((16 - (o % 16)) % 16)) % 16 = 0
  <1> TAKE o \in Nat
  <1> DEFINE r == o % 16
  <1> DEFINE q == o \div 16
  <1>1. r \in 0..15 /\ q \in Nat /\ o = 16 * q + r
    BY Z3T(60)
  <1> HIDE DEF r, q
  <1>2. ((16 - r) % 16) = IF r = 0 THEN 0 ELSE 16 - r
    BY <1>1, Z3T(60)
  <1>3. CASE r = 0
    <2>1. o + ((16 - r) % 16) = 16 * q
      BY <1>1, <1>2, <1>3
    <2>2. (16 * q) % 16 = 0
      BY <1>1, Z3T(60)
    <2> QED BY <2>1, <2>2 DEF r, q
  <1>4. CASE r # 0
    <2>1. o + ((16 - r) % 16) = 16 * (q + 1)
      BY <1>1, <1>2, <1>4, Z3T(60)
    <2>2. (16 * (q + 1)) % 16 = 0
      BY <1>1, Z3T(60)
    <2> QED BY <2>1, <2>2 DEF r, q
  <1> QED BY <1>3, <1>4
LEMMA F16 == \A o \in Nat : (o % 16 = 0 => o + ((16 - (o % 16)) % 16) = o)  BY Z3T(60)
LEMMA Up16 == \A o \in Nat : /\ o + ((16 - (o % 16)) % 16) \in Nat
                           /\ o + ((16 - (o % 16)) % 16) >= o
                           /\ o + ((16 - (o % 16)) % 16) < o + 16
                           /\ (o + ((16 - (o % 16)) % 16)) % 16 = 0
                           /\ (o % 16 = 0 => o + ((16 - (o % 16)) % 16) = o)
  BY K16, M16, F16, Z3T(60)
LEMMA Rel16 == \A s \in Nat, p \in Nat : p >= s /\ s % 16 = 0 =>
                    s + ((p - s) + ((16 - ((p - s) % 16)) % 16)) = p + ((16 - (p % 16)) % 16)
  BY Z3T(120)

\* the next multiple of a at or above o: not below o, less than a further, a multiple of a, and o itself when o is one
THEOREM AlignUpSpec ==
  ASSUME NEW o \in Nat, NEW a \in Alignments
  PROVE  /\ AlignUp(o, a) \in Nat
         /\ AlignUp(o, a) >= o
         /\ AlignUp(o, a) < o + a
         /\ AlignUp(o, a) % a = 0
         /\ (o % a = 0 => AlignUp(o, a) = o)
  <1>1. CASE a = 1  BY <1>1, Up1 DEF AlignUp
  <1>2. CASE a = 2  BY <1>2, Up2 DEF AlignUp
  <1>3. CASE a = 4  BY <1>3, Up4 DEF AlignUp
  <1>4. CASE a = 8  BY <1>4, Up8 DEF AlignUp
  <1>5. CASE a = 16  BY <1>5, Up16 DEF AlignUp
  <1> QED BY <1>1, <1>2, <1>3, <1>4, <1>5 DEF Alignments

\* alignment relative to the start of a structure: the padded offset INSIDE the structure is a multiple of a, whatever the
\* absolute position of the structure (finding F35 was a reader that aligned the absolute position instead)
THEOREM AlignRelSpec ==
  ASSUME NEW start \in Nat, NEW p \in Nat, p >= start, NEW a \in Alignments
  PROVE  /\ AlignRel(p, start, a) >= p
         /\ AlignRel(p, start, a) < p + a
         /\ (AlignRel(p, start, a) - start) % a = 0
  <1>1. p - start \in Nat
    OBVIOUS
  <1>2. /\ AlignUp(p - start, a) \in Nat
        /\ AlignUp(p - start, a) >= p - start
        /\ AlignUp(p - start, a) < (p - start) + a
        /\ AlignUp(p - start, a) % a = 0
    BY <1>1, AlignUpSpec
  <1>3. a \in Nat
    BY DEF Alignments
  <1> QED BY <1>2, <1>3 DEF AlignRel

\* an absolute and a relative alignment agree whenever the start is itself aligned - which is why the difference stayed
\* invisible to every test that parses from offset 0
THEOREM AbsoluteEqualsRelativeAtAlignedStart ==
  ASSUME NEW start \in Nat, NEW p \in Nat, p >= start, NEW a \in Alignments, start % a = 0
  PROVE  AlignRel(p, start, a) = AlignUp(p, a)
  <1>1. CASE a = 1  BY <1>1, Rel1 DEF AlignUp, AlignRel
  <1>2. CASE a = 2  BY <1>2, Rel2 DEF AlignUp, AlignRel
  <1>3. CASE a = 4  BY <1>3, Rel4 DEF AlignUp, AlignRel
  <1>4. CASE a = 8  BY <1>4, Rel8 DEF AlignUp, AlignRel
  <1>5. CASE a = 16  BY <1>5, Rel16 DEF AlignUp, AlignRel
  <1> QED BY <1>1, <1>2, <1>3, <1>4, <1>5 DEF Alignments
=============================================================================
