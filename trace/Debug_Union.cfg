SPECIFICATION DSpec
CHECK_DEADLOCK FALSE
