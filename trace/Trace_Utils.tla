----------------------------- MODULE Trace_Utils -----------------------------
(***************************************************************************)
(* C19 trace validation.  Records:                                         *)
(*   hexdump  data, start, palette;  obs: the tokenised lines of the real  *)
(*            output with and without the palette                          *)
(*   dumpstruct  the dumped bytes of a parsed structure, its field names;  *)
(*            obs: tokenised hex lines + the field lines that were printed *)
(*   pack / unpack / swap  on integers given as limbs                      *)
(***************************************************************************)
EXTENDS Hexdump, TLC, Json, IOUtils

Traces == ndJsonDeserialize(IOEnv.TRACE_FILE)

Clauses(T) ==
  CASE T.kind = "hexdump" ->
         (IF T.obs.status = "ok" /\ Lossless(T.data, T.start, T.obs.colored) /\ Lossless(T.data, T.start, T.obs.plain) THEN {} ELSE {"lossless"})
         \cup (IF T.obs.status = "ok" /\ Cosmetic(T.obs.colored, T.obs.plain) THEN {} ELSE {"cosmetic"})
         \cup (IF T.obs.status = "ok" /\ T.obs.prefix_ok THEN {} ELSE {"prefix"})
    [] T.kind = "dumpstruct" ->
         (IF T.obs.status = "ok" /\ Lossless(T.data, T.start, T.obs.lines) THEN {} ELSE {"dumpstruct-bytes"})
         \cup (IF T.obs.status = "ok" /\ T.obs.fields = T.fields THEN {} ELSE {"dumpstruct-fields"})
         \* colour off = no palette: the text holds no colour code at all (finding F59)
         \cup (IF T.obs.status = "ok" /\ ~T.color /\ T.obs.escapes > 0 THEN {"dumpstruct-colour"} ELSE {})
    [] T.kind = "pack" ->
         IF FitsInt(T.v, WBytes(T.bits), T.v.neg) /\ (T.v.neg => T.bits > 0)
         THEN (IF T.obs.status = "ok" /\ T.obs.b = PackBytes(T.v, T.bits, T.endian) THEN {} ELSE {"pack"})
              \cup (IF T.obs.status = "ok" /\ T.obs.back = T.v THEN {} ELSE {"unpack-inverse"})
         ELSE (IF T.obs.status = "ok" THEN {"pack-overflow-accepted"} ELSE {})
    [] T.kind = "packmin" ->      \* pack(v) without a width (finding F60)
         (IF T.obs.status = "ok" /\ T.obs.b = PackMin(T.v, T.endian) THEN {} ELSE {"pack"})
         \cup (IF T.obs.status = "ok" /\ T.obs.back = T.v THEN {} ELSE {"unpack-inverse"})
    [] T.kind = "unpack" ->
         (IF T.obs.status = "ok" /\ T.obs.v = UnpackVal(T.b, T.endian, T.sign) THEN {} ELSE {"unpack"})
         \cup (IF T.obs.status = "ok" /\ T.obs.back = T.b THEN {} ELSE {"pack-inverse"})
    [] T.kind = "swap" ->
         (IF T.obs.status = "ok" /\ T.obs.once = SwapVal(T.v, T.bits) THEN {} ELSE {"swap"})
         \cup (IF T.obs.status = "ok" /\ T.obs.twice = T.v THEN {} ELSE {"swap-involution"})

VARIABLE tid
Init == tid = 1
Next == /\ tid <= Len(Traces)
        /\ PrintT(<<"VERDICT", Traces[tid].id, Clauses(Traces[tid])>>)
        /\ tid' = tid + 1
Spec == Init /\ [][Next]_tid
=============================================================================
