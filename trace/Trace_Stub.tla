----------------------------- MODULE Trace_Stub -----------------------------
(***************************************************************************)
(* C20 trace validation.  StubDecls: what the stub of a cstruct object     *)
(* must declare, computed from the abstract declaration list (the same one *)
(* Trace_Parser uses):                                                     *)
(*   - every constant under its name with its literal value               *)
(*   - every user type under its first name as a class deriving from       *)
(*     Structure / Union / Enum / Flag; structures list every (folded)     *)
(*     field with a hint that NAMES the field's actual type; enums list    *)
(*     their members                                                       *)
(*   - every further name of a type and every typedef alias as an alias    *)
(*     of the type it resolves to                                          *)
(*   - nothing else at the top level                                       *)
(* The observation is the `ast` of the real stub text projected to         *)
(* [valid, consts, classes, aliases] (hints as trees of bare names, module *)
(* prefixes dropped, generated names of anonymous structures blanked).     *)
(***************************************************************************)
EXTENDS TypeTable, Sequences, TLC, Json, IOUtils
LOCAL INSTANCE Builtins

Traces == ndJsonDeserialize(IOEnv.TRACE_FILE)
Ty(x) == [t |-> "type", id |-> x]
Nm(x) == [t |-> "name", id |-> x]
Tab0 == [n \in BuiltinNames |-> Ty(Builtin(n))]

Name(id) == [k |-> "name", id |-> id]
Sub(base, arg) == [k |-> "sub", base |-> base, arg |-> arg]
RECURSIVE HintOf(_)
HintOf(t) ==
  CASE t.k = "int"   -> Name(t.name)
    [] t.k = "float" -> Name(IF t.size = 2 THEN "float16" ELSE IF t.size = 4 THEN "float" ELSE "double")
    [] t.k = "char"  -> Name("char")   [] t.k = "wchar" -> Name("wchar")   [] t.k = "void" -> Name("void")
    [] t.k = "leb"   -> Name(IF t.signed THEN "ileb128" ELSE "uleb128")
    [] t.k = "enum"  -> Name(t.name)
    [] t.k \in {"struct", "union"} -> Name(t.name)
    [] t.k = "ref"   -> Name(t.name)
    [] t.k = "ptr"   -> Sub("Pointer", HintOf(t.target))
    [] t.k = "arr"   -> IF t.elem.k = "char" THEN Name("CharArray") ELSE IF t.elem.k = "wchar" THEN Name("WcharArray") ELSE Sub("Array", HintOf(t.elem))

\* fields as an instance exposes them: anonymous members fold their fields into the parent
RECURSIVE Folded(_, _)
Folded(fields, i) ==
  IF i > Len(fields) THEN << >>
  ELSE (IF fields[i].anon THEN Folded(fields[i].type.fields, 1) ELSE << <<fields[i].name, HintOf(fields[i].type)>> >>) \o Folded(fields, i + 1)

BaseOf(t) == IF t.k = "struct" THEN "Structure" ELSE IF t.k = "union" THEN "Union" ELSE IF t.flag THEN "Flag" ELSE "Enum"
ClassOf(t) == IF t.k = "enum" THEN [name |-> t.name, base |-> BaseOf(t), fields |-> << >>, members |-> [j \in 1..Len(t.members) |-> t.members[j][1]]]
              ELSE [name |-> t.name, base |-> BaseOf(t), fields |-> Folded(t.fields, 1), members |-> << >>]

\* the type a `typedef T name[n];` / `typedef T *name;` declares, as Trace_Parser builds it
AliasType(tab, d) ==
  LET tgt == Resolve(tab, Nm(d.target))
      named == tgt.id.k \in {"struct", "union"} /\ tgt.id.name # ""
  IN IF d.kind = "aliasarr" THEN [k |-> "arr", elem |-> tgt.id, len |-> [k |-> "fixed", n |-> d.n]]
     ELSE [k |-> "ptr", target |-> IF named THEN [k |-> "ref", name |-> tgt.id.name] ELSE tgt.id]
\* name table as in Trace_Parser (only what the alias targets need)
RECURSIVE Fold(_, _, _)
Fold(decls, i, tab) ==
  IF i > Len(decls) THEN tab
  ELSE LET d == decls[i] IN
       CASE d.kind = "type"  -> Fold(decls, i + 1, [n \in DOMAIN tab \cup {d.names[j] : j \in 1..Len(d.names)} |-> IF n \in {d.names[j] : j \in 1..Len(d.names)} THEN Ty(d.type) ELSE tab[n]])
         [] d.kind = "alias" -> LET tgt == Resolve(tab, Nm(d.target)) IN
                                Fold(decls, i + 1, [n \in DOMAIN tab \cup {d.names[1]} |-> IF n = d.names[1] THEN tgt ELSE tab[n]])
         [] d.kind \in {"aliasarr", "aliasptr"} ->
              Fold(decls, i + 1, [n \in DOMAIN tab \cup {d.names[1]} |-> IF n = d.names[1] THEN Ty(AliasType(tab, d)) ELSE tab[n]])
         [] OTHER -> Fold(decls, i + 1, tab)
TypeNameOf(t) == HintOf(t).id
IsGeneric(t) == t.k \in {"arr", "ptr"}

ExpectedClasses(T) == {ClassOf(T.decls[i].type) : i \in {j \in 1..Len(T.decls) : T.decls[j].kind = "type"}}
ExpectedAliases(T) ==
  LET tab == Fold(T.decls, 1, Tab0) IN
  UNION { IF T.decls[i].kind = "type" THEN {<<T.decls[i].names[j], T.decls[i].names[1]>> : j \in 2..Len(T.decls[i].names)}
          ELSE IF T.decls[i].kind = "alias" /\ ~IsGeneric(Resolve(tab, Nm(T.decls[i].names[1])).id)
          THEN {<<T.decls[i].names[1], TypeNameOf(Resolve(tab, Nm(T.decls[i].names[1])).id)>>}
          ELSE {} : i \in 1..Len(T.decls) }
\* a name of an array or pointer type (typedef T a[4]; typedef T *p; and aliases of such names) is declared as an alias of the
\* generic hint that names the type: Array[...], Pointer[...], CharArray (finding F62)
ExpectedTypeAliases(T) ==
  LET tab == Fold(T.decls, 1, Tab0) IN
  UNION { IF T.decls[i].kind \in {"alias", "aliasarr", "aliasptr"} /\ IsGeneric(Resolve(tab, Nm(T.decls[i].names[1])).id)
          THEN {<<T.decls[i].names[1], HintOf(Resolve(tab, Nm(T.decls[i].names[1])).id)>>}
          ELSE {} : i \in 1..Len(T.decls) }
ToSet(s) == {s[j] : j \in 1..Len(s)}

Clauses(T) ==
  IF ~T.obs.valid THEN {"invalid-python"}
  ELSE (IF ToSet(T.obs.classes) = ExpectedClasses(T) THEN {} ELSE {"classes"})
       \cup (IF ToSet(T.obs.aliases) = ExpectedAliases(T) THEN {} ELSE {"aliases"})
       \cup (IF ToSet(T.obs.typealiases) = ExpectedTypeAliases(T) THEN {} ELSE {"aliases"})
       \cup (IF ToSet(T.obs.consts) = ToSet(T.consts) THEN {} ELSE {"consts"})
       \cup (IF Len(T.obs.other) = 0 THEN {} ELSE {"extra-declarations"})
       \* a hint must NAME a type: an unqualified name is only meaningful when the same class body declares it (inline
       \* structures) or it is one of the generic string/array classes the stub imports
       \cup (IF \A j \in 1..Len(T.obs.scopes) : ToSet(T.obs.scopes[j].bare) \subseteq ToSet(T.obs.scopes[j].inline) \cup {"CharArray", "WcharArray"}
             THEN {} ELSE {"unresolvable-hint"})
       \* a class declared inside a class body is an inline declared structure; a copy of a top-level type there is a class the
       \* cstruct object does not provide, and hints naming it do not name the field's actual type (finding F40)
       \cup (IF \A j \in 1..Len(T.obs.scopes) : ToSet(T.obs.scopes[j].inline) \cap {c.name : c \in ExpectedClasses(T)} = {}
             THEN {} ELSE {"shadow-class"})
       \* a name a hint reaches through the stub class (cstruct.X) is a class or alias declared at its top level, or a built-in type
       \cup (IF \A j \in 1..Len(T.obs.scopes) :
                  ToSet(T.obs.scopes[j].qual) \subseteq {c.name : c \in ExpectedClasses(T)} \cup {a[1] : a \in ExpectedAliases(T)} \cup {a[1] : a \in ExpectedTypeAliases(T)} \cup BuiltinNames
             THEN {} ELSE {"undeclared-hint"})

VARIABLE tid
Init == tid = 1
Next == /\ tid <= Len(Traces)
        /\ PrintT(<<"VERDICT", Traces[tid].id, Clauses(Traces[tid])>>)
        /\ tid' = tid + 1
Spec == Init /\ [][Next]_tid
=============================================================================
