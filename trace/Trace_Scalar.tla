---------------------------- MODULE Trace_Scalar ----------------------------
(***************************************************************************)
(* C05: histories on one cstruct object.  Events                           *)
(*   SetEndian(e)            the instance's byte order is changed          *)
(*   Read(name, bytes) -> v  a built-in name (or a user structure loaded   *)
(*                           earlier) is parsed                            *)
(*   Write(name, v) -> bytes the value is dumped                           *)
(* The specification state is just the current byte order; every read and  *)
(* write is judged under the byte order in force *at call time*, whatever  *)
(* was loaded or compiled before.  Built-in names get their meaning from   *)
(* module Builtins; user types carry their abstract type in the event.     *)
(* One TLC behaviour per history (hid); histories are concatenated.        *)
(***************************************************************************)
EXTENDS Codec, Builtins, TLC, Json, IOUtils

Events == ndJsonDeserialize(IOEnv.TRACE_FILE)

VARIABLES l, endian
vars == <<l, endian>>

\* a built-in name can also be used as name[n] or name[None] (null-terminated): ev.form is the length form
TypeOf(ev) == IF "type" \in DOMAIN ev THEN ev.type
              ELSE IF "form" \in DOMAIN ev THEN [k |-> "arr", elem |-> Builtin(ev.name), len |-> ev.form]
              ELSE Builtin(ev.name)
Mode(ev) == [endian |-> endian, align |-> ev.align, ptr |-> ev.ptr]

ReadClauses(ev) ==
  LET t == TypeOf(ev)
      r == Decode(t, Mode(ev), ev.input, 0, << >>, << >>)
  IN IF "nan" \in r.fl THEN {"SKIP:nan"}
     ELSE (IF r.ok THEN (IF ev.status = "ok" THEN {} ELSE {"status"}) ELSE (IF ErrMatches(ev.status, r.err) THEN {} ELSE {"status"}))
          \cup (IF r.ok /\ ev.status = "ok" /\ ev.v # r.v THEN {"value"} ELSE {})
          \cup (IF r.ok /\ ev.status = "ok" /\ ev.pos # r.pos THEN {"pos"} ELSE {})
          \cup (IF ~("type" \in DOMAIN ev) /\ ~("form" \in DOMAIN ev) /\ (ev.size # SizeOf(t, Mode(ev)) \/ ev.alignment # AlignOf(t, Mode(ev))) THEN {"builtin-size"} ELSE {})
WriteClauses(ev) ==
  LET t == TypeOf(ev) IN
  IF ~Fits(t, Mode(ev), ev.v) THEN (IF ev.status = "ok" THEN {"reject"} ELSE {})
  ELSE IF ev.status # "ok" \/ ev.b # Encode(t, Mode(ev), ev.v) THEN {"dump"} ELSE {}

Init == l = 1 /\ endian = "<"
Step == /\ l <= Len(Events)
        /\ LET ev == Events[l] IN
           CASE ev.ev = "New"       -> endian' = ev.endian
             [] ev.ev = "SetEndian" -> endian' = ev.endian
             [] ev.ev = "Read"      -> /\ PrintT(<<"VERDICT", ev.id, ReadClauses(ev)>>) /\ UNCHANGED endian
             [] ev.ev = "Write"     -> /\ PrintT(<<"VERDICT", ev.id, WriteClauses(ev)>>) /\ UNCHANGED endian
        /\ l' = l + 1
Spec == Init /\ [][Step]_vars
=============================================================================
