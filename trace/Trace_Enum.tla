----------------------------- MODULE Trace_Enum -----------------------------
(***************************************************************************)
(* C12 trace validation.  A record holds a declaration (abstract), the     *)
(* members the real class ended up with, and an equality / hash matrix     *)
(* observed on objects obtained by parsing underlying values.              *)
(***************************************************************************)
EXTENDS EnumSpec, TLC, Json, IOUtils

Traces == ndJsonDeserialize(IOEnv.TRACE_FILE)

Clauses(T) ==
  LET ms == Members(T.decl, T.consts) IN
  IF ~InDomain(ms) THEN {"SKIP:domain"}
  ELSE (IF T.obs.loaded /\ T.obs.members = ms THEN {} ELSE {"numbering"})
       \cup (IF \A j \in 1..Len(T.obs.eq) : T.obs.eq[j].eq = EqRule(T.obs.eq[j].a, T.obs.eq[j].b) THEN {} ELSE {"equality"})
       \* two parses of the same underlying value in the same class are equal and hash equally
       \cup (IF \A j \in 1..Len(T.obs.twice) : T.obs.twice[j].eq /\ T.obs.twice[j].heq /\ T.obs.twice[j].value = T.obs.twice[j].raw THEN {} ELSE {"two-parses"})

VARIABLE tid
Init == tid = 1
Next == /\ tid <= Len(Traces)
        /\ PrintT(<<"VERDICT", Traces[tid].id, Clauses(Traces[tid])>>)
        /\ tid' = tid + 1
Spec == Init /\ [][Next]_tid
=============================================================================
