---------------------------- MODULE Trace_Parser ----------------------------
(***************************************************************************)
(* C13 trace validation.  A record is one *rendering* of an abstract list  *)
(* of declarations (the rendering choices - fillers at insertion points,   *)
(* order, split into load() calls - are logged for diagnostics only: the   *)
(* result is DEFINED not to depend on them) together with what the real    *)
(* cstruct object contained afterwards:                                    *)
(*   table   for every declared name the projection of cs.resolve(name)    *)
(*   same    for pairs of names whether they resolve to the same object    *)
(*   consts  the constants                                                 *)
(* The expected table is computed here by folding the declarations over    *)
(* the name table of module TypeTable (AddType / Resolve), starting from   *)
(* the built-in names of module Builtins.                                  *)
(* decl.kind:  "type"  names, type      (struct / union / enum definition  *)
(*                                       with all the names it declares)   *)
(*             "alias" names, target    (typedef <existing name> n1, ...)  *)
(*             "addtype" name, target, replace   (API call add_type)       *)
(* The declarations are also DERIVED FROM THE TEXT by the grammar of       *)
(* module DefGrammar (lexer + parser over the rendered characters): the    *)
(* text's meaning must be the abstract list the rendering started from -   *)
(* whatever fillers, order or split - otherwise the specification (or the  *)
(* renderer) is wrong (SPECBUG:grammar, a machinery failure).              *)
(***************************************************************************)
EXTENDS TypeTable, TLC, Json, IOUtils
LOCAL INSTANCE Builtins
DG == INSTANCE DefGrammar

Traces == ndJsonDeserialize(IOEnv.TRACE_FILE)

\* uid = the declaration that created the type: every struct/enum definition and every array / pointer typedef makes a
\* fresh type (0 = built in or given by the harness), so two structurally equal types need not be one object
TyU(x, u) == [t |-> "type", id |-> x, uid |-> u]
Ty(x) == TyU(x, 0)
Nm(x) == [t |-> "name", id |-> x]
Tab0 == [n \in BuiltinNames |-> Ty(Builtin(n))]

\* fold the declarations; st = [tab, ok] ; a declaration that must be rejected sets ok to FALSE and stops
RECURSIVE AddNames(_, _, _, _)
AddNames(st, names, target, i) ==
  IF i > Len(names) \/ ~st.ok THEN st
  ELSE LET r == AddType(st.tab, names[i], target, FALSE) IN AddNames([tab |-> r.tab, ok |-> r.ok], names, target, i + 1)
RECURSIVE Fold(_, _, _)
Fold(decls, i, st) ==
  IF i > Len(decls) \/ ~st.ok THEN st
  ELSE LET d == decls[i] IN
       CASE d.kind = "type"  -> Fold(decls, i + 1, AddNames(st, d.names, TyU(d.type, i), 1))
         [] d.kind = "alias" -> LET tgt == Resolve(st.tab, Nm(d.target)) IN
                                IF ~IsType(tgt) THEN [st EXCEPT !.ok = FALSE] ELSE Fold(decls, i + 1, AddNames(st, d.names, tgt, 1))
         [] d.kind \in {"aliasarr", "aliasptr"} ->
              LET tgt == Resolve(st.tab, Nm(d.target)) IN
              IF ~IsType(tgt) THEN [st EXCEPT !.ok = FALSE]
              ELSE LET named == tgt.id.k \in {"struct", "union"} /\ tgt.id.name # ""
                       ty == IF d.kind = "aliasarr" THEN [k |-> "arr", elem |-> tgt.id, len |-> [k |-> "fixed", n |-> d.n]]
                             ELSE [k |-> "ptr", target |-> IF named THEN [k |-> "ref", name |-> tgt.id.name] ELSE tgt.id]
                   IN Fold(decls, i + 1, AddNames(st, d.names, TyU(ty, i), 1))
         [] d.kind = "typedecl" ->      \* typedef struct [TAG] { ... } *P;  /  ... A[n];
              LET named == d.type.name # ""
                  ty == IF d.ptr THEN [k |-> "ptr", target |-> IF named THEN [k |-> "ref", name |-> d.type.name] ELSE d.type]
                        ELSE [k |-> "arr", elem |-> d.type, len |-> [k |-> "fixed", n |-> d.n]]
              IN Fold(decls, i + 1, AddNames(AddNames(st, d.names, TyU(d.type, i), 1), << d.alias >>, TyU(ty, i), 1))
         [] d.kind = "addtype" -> LET r == AddType(st.tab, d.name, IF d.isname THEN Nm(d.target) ELSE Ty(d.target), d.replace) IN
                                  Fold(decls, i + 1, [tab |-> r.tab, ok |-> r.ok])
         [] OTHER -> Fold(decls, i + 1, st)

Expected(T, name) == LET st == Fold(T.decls, 1, [tab |-> Tab0, ok |-> TRUE]) IN Resolve(st.tab, Nm(name))

ToSetP(s) == {s[j] : j \in 1..Len(s)}
GrammarClauses(T) ==
  IF "texts" \notin DOMAIN T THEN {}
  ELSE LET g == DG!Parse(T.texts) IN
       IF ~g.ok THEN {"SPECBUG:grammar-rejects-text"}
       ELSE (IF g.decls = T.decls THEN {} ELSE {"SPECBUG:grammar-decls"})
            \cup (IF ToSetP(g.consts) = ToSetP(T.consts) THEN {} ELSE {"SPECBUG:grammar-consts"})

\* A text that did not come from the renderer (definitions found in the repository's tests): its meaning is the grammar's alone.
\* Names: every user name the object knows must be declared by the text and vice versa.
DeclNames(decls) == UNION {ToSetP(decls[j].names) \cup (IF decls[j].kind = "typedecl" THEN {decls[j].alias} ELSE {}) : j \in 1..Len(decls)}
\* what a grammatical text must satisfy beyond the grammar: no bit-field straddles its unit, no field name twice in one structure
RECURSIVE NoDupFields(_)
NoDupFields(t) ==
  CASE t.k \in {"struct", "union"} ->
         /\ \A a, b \in 1..Len(t.fields) : a # b /\ t.fields[a].name = t.fields[b].name => t.fields[a].name \in {"", "_"}
         /\ \A a \in 1..Len(t.fields) : NoDupFields(t.fields[a].type)
    [] t.k = "arr" -> NoDupFields(t.elem)
    [] OTHER -> TRUE
\* x[][n] - a null-terminated array OF ARRAYS - has no terminator element and is refused ("depth required")
RECURSIVE Terminable(_)
Terminable(t) ==
  CASE t.k \in {"struct", "union"} -> \A a \in 1..Len(t.fields) : Terminable(t.fields[a].type)
    [] t.k = "arr" -> ~(t.len.k = "null" /\ t.elem.k = "arr") /\ Terminable(t.elem)
    [] OTHER -> TRUE
ValidDecls(decls) ==
  \A j \in 1..Len(decls) : decls[j].kind \in {"type", "typedecl"} /\ decls[j].type.k \in {"struct", "union"} =>
      WellFormed(decls[j].type, [endian |-> "<", align |-> FALSE, ptr |-> 8]) /\ NoDupFields(decls[j].type) /\ Terminable(decls[j].type)
CorpusClauses(T) ==
  LET g == DG!Parse(T.texts) IN
  IF ~g.ok THEN {"SKIP:outside-grammar"}
  ELSE LET st == Fold(g.decls, 1, [tab |-> Tab0, ok |-> ValidDecls(g.decls)]) IN
       IF ~st.ok THEN (IF T.obs.status = "ok" THEN {"accepted-invalid"} ELSE {})
       ELSE IF T.obs.status # "ok" THEN {"rejected-valid"}
       ELSE (IF \A j \in 1..Len(T.obs.table) :
                   LET e == Resolve(st.tab, Nm(T.obs.table[j][1])) IN IsType(e) /\ T.obs.table[j][2] = e.id
             THEN {} ELSE {"table"})
            \cup (IF {T.obs.table[j][1] : j \in 1..Len(T.obs.table)} = DeclNames(g.decls) THEN {} ELSE {"names"})
            \cup (IF ToSetP(T.obs.consts) = ToSetP(g.consts) THEN {} ELSE {"consts"})

Clauses(T) ==
  IF T.tag = "corpus" THEN CorpusClauses(T) ELSE
  GrammarClauses(T) \cup
  LET st == Fold(T.decls, 1, [tab |-> Tab0, ok |-> TRUE]) IN
  IF ~st.ok THEN (IF T.obs.status = "ok" THEN {"accepted-invalid"} ELSE {})
  ELSE IF T.obs.status # "ok" THEN {"rejected-valid"}
  ELSE (IF \A j \in 1..Len(T.obs.table) :
              LET e == Resolve(st.tab, Nm(T.obs.table[j][1])) IN
              IF IsType(e) THEN T.obs.table[j][2] = e.id ELSE T.obs.table[j][2] = [k |-> "ResolveError"]
        THEN {} ELSE {"table"})
       \cup (IF \A j \in 1..Len(T.obs.same) :
                  LET a == Resolve(st.tab, Nm(T.obs.same[j][1]))
                      b == Resolve(st.tab, Nm(T.obs.same[j][2]))
                  \* aliases of one type are the very same object; different types never are; two separately declared
                  \* but structurally equal types (typedef T *a; typedef T *b;) may or may not be shared
                  IN IsType(a) /\ IsType(b) => /\ (a = b => T.obs.same[j][3])
                                               /\ (a.id # b.id => ~T.obs.same[j][3])
             THEN {} ELSE {"same-object"})
       \cup (IF T.obs.consts = T.consts THEN {} ELSE {"consts"})

VARIABLE tid
Init == tid = 1
Next == /\ tid <= Len(Traces)
        /\ PrintT(<<"VERDICT", Traces[tid].id, Clauses(Traces[tid])>>)
        /\ tid' = tid + 1
Spec == Init /\ [][Next]_tid
=============================================================================
