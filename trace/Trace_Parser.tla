---------------------------- MODULE Trace_Parser ----------------------------
(***************************************************************************)
(* C13 trace validation.  A record is one *rendering* of an abstract list  *)
(* of declarations (the rendering choices - fillers at insertion points,   *)
(* order, split into load() calls - are logged for diagnostics only: the   *)
(* result is DEFINED not to depend on them) together with what the real    *)
(* cstruct object contained afterwards:                                    *)
(*   table   for every declared name the projection of cs.resolve(name)    *)
(*   same    for pairs of names whether they resolve to the same object    *)
(*   consts  the constants                                                 *)
(* The expected table is computed here by folding the declarations over    *)
(* the name table of module TypeTable (AddType / Resolve), starting from   *)
(* the built-in names of module Builtins.                                  *)
(* decl.kind:  "type"  names, type      (struct / union / enum definition  *)
(*                                       with all the names it declares)   *)
(*             "alias" names, target    (typedef <existing name> n1, ...)  *)
(*             "addtype" name, target, replace   (API call add_type)       *)
(***************************************************************************)
EXTENDS TypeTable, TLC, Json, IOUtils
LOCAL INSTANCE Builtins

Traces == ndJsonDeserialize(IOEnv.TRACE_FILE)

\* uid = the declaration that created the type: every struct/enum definition and every array / pointer typedef makes a
\* fresh type (0 = built in or given by the harness), so two structurally equal types need not be one object
TyU(x, u) == [t |-> "type", id |-> x, uid |-> u]
Ty(x) == TyU(x, 0)
Nm(x) == [t |-> "name", id |-> x]
Tab0 == [n \in BuiltinNames |-> Ty(Builtin(n))]

\* fold the declarations; st = [tab, ok] ; a declaration that must be rejected sets ok to FALSE and stops
RECURSIVE AddNames(_, _, _, _)
AddNames(st, names, target, i) ==
  IF i > Len(names) \/ ~st.ok THEN st
  ELSE LET r == AddType(st.tab, names[i], target, FALSE) IN AddNames([tab |-> r.tab, ok |-> r.ok], names, target, i + 1)
RECURSIVE Fold(_, _, _)
Fold(decls, i, st) ==
  IF i > Len(decls) \/ ~st.ok THEN st
  ELSE LET d == decls[i] IN
       CASE d.kind = "type"  -> Fold(decls, i + 1, AddNames(st, d.names, TyU(d.type, i), 1))
         [] d.kind = "alias" -> LET tgt == Resolve(st.tab, Nm(d.target)) IN
                                IF ~IsType(tgt) THEN [st EXCEPT !.ok = FALSE] ELSE Fold(decls, i + 1, AddNames(st, d.names, tgt, 1))
         [] d.kind \in {"aliasarr", "aliasptr"} ->
              LET tgt == Resolve(st.tab, Nm(d.target)) IN
              IF ~IsType(tgt) THEN [st EXCEPT !.ok = FALSE]
              ELSE LET named == tgt.id.k \in {"struct", "union"} /\ tgt.id.name # ""
                       ty == IF d.kind = "aliasarr" THEN [k |-> "arr", elem |-> tgt.id, len |-> [k |-> "fixed", n |-> d.n]]
                             ELSE [k |-> "ptr", target |-> IF named THEN [k |-> "ref", name |-> tgt.id.name] ELSE tgt.id]
                   IN Fold(decls, i + 1, AddNames(st, d.names, TyU(ty, i), 1))
         [] d.kind = "addtype" -> LET r == AddType(st.tab, d.name, IF d.isname THEN Nm(d.target) ELSE Ty(d.target), d.replace) IN
                                  Fold(decls, i + 1, [tab |-> r.tab, ok |-> r.ok])
         [] OTHER -> Fold(decls, i + 1, st)

Expected(T, name) == LET st == Fold(T.decls, 1, [tab |-> Tab0, ok |-> TRUE]) IN Resolve(st.tab, Nm(name))

Clauses(T) ==
  LET st == Fold(T.decls, 1, [tab |-> Tab0, ok |-> TRUE]) IN
  IF ~st.ok THEN (IF T.obs.status = "ok" THEN {"accepted-invalid"} ELSE {})
  ELSE IF T.obs.status # "ok" THEN {"rejected-valid"}
  ELSE (IF \A j \in 1..Len(T.obs.table) :
              LET e == Resolve(st.tab, Nm(T.obs.table[j][1])) IN
              IF IsType(e) THEN T.obs.table[j][2] = e.id ELSE T.obs.table[j][2] = [k |-> "ResolveError"]
        THEN {} ELSE {"table"})
       \cup (IF \A j \in 1..Len(T.obs.same) :
                  LET a == Resolve(st.tab, Nm(T.obs.same[j][1]))
                      b == Resolve(st.tab, Nm(T.obs.same[j][2]))
                  \* aliases of one type are the very same object; different types never are; two separately declared
                  \* but structurally equal types (typedef T *a; typedef T *b;) may or may not be shared
                  IN IsType(a) /\ IsType(b) => /\ (a = b => T.obs.same[j][3])
                                               /\ (a.id # b.id => ~T.obs.same[j][3])
             THEN {} ELSE {"same-object"})
       \cup (IF T.obs.consts = T.consts THEN {} ELSE {"consts"})

VARIABLE tid
Init == tid = 1
Next == /\ tid <= Len(Traces)
        /\ PrintT(<<"VERDICT", Traces[tid].id, Clauses(Traces[tid])>>)
        /\ tid' = tid + 1
Spec == Init /\ [][Next]_tid
=============================================================================
