---------------------------- MODULE Trace_Union ----------------------------
(***************************************************************************)
(* C11 trace validation: histories on one union object.                    *)
(*   Parse(bytes) | Default | Assign(path, value)                          *)
(* Specification state: the union's byte buffer.  After every event the    *)
(* harness logs all member values and dumps(); TLC checks that each member *)
(* is Decode(member, buf') and the dump is buf' on every data bit.         *)
(* Where the observation matches the *known deviation* (F27: the written   *)
(* member's padding is zeroed) instead of the specified buffer, the trace  *)
(* continues from the deviating buffer so that the rest is still checked.  *)
(***************************************************************************)
EXTENDS UnionOps, TLC, Json, IOUtils

Events == ndJsonDeserialize(IOEnv.TRACE_FILE)
VARIABLES l, buf
vars == <<l, buf>>

T(ev) == ev.type
M(ev) == ev.mode
K(ev) == ev.consts

MembersMatch(ev, b) ==
  LET vs == Views(T(ev), M(ev), b, K(ev)) IN
  ViewsOk(vs) /\ ev.obs.members = [j \in 1..Len(vs) |-> vs[j].v]

NextBuf(ev, whole) ==
  CASE ev.ev = "Parse"   -> \* the harness feeds at least len(T) bytes as the implementation reports it; should that be less than the
                            \* specified size the verdict is "size" and the window is completed with zeros so the trace goes on
                            LET sz == SizeOf(T(ev), M(ev)) IN
                            IF Len(ev.input) >= sz THEN Slice(ev.input, 0, sz) ELSE ev.input \o Zeros(sz - Len(ev.input))
    [] ev.ev = "Default" -> Zeros(SizeOf(T(ev), M(ev)))
    [] ev.ev = "Assign"  -> AssignBuf(T(ev), M(ev), buf, ev.path, ev.value, K(ev), whole)

Clauses(ev, spec, dev) ==
  IF ev.obs.status # "ok" THEN {"assign-status"}
  ELSE LET okspec == MembersMatch(ev, spec)
           okdev == MembersMatch(ev, dev)
           b == IF okspec THEN spec ELSE dev
           mask == UnionMask(T(ev), M(ev), b, K(ev))
           uv == UnionValue(T(ev), Views(T(ev), M(ev), b, K(ev)))
       IN (IF okspec THEN {} ELSE IF okdev THEN {"members", "KF:F27"} ELSE {"members"})
          \cup (IF (okspec \/ okdev) /\ ev.obs.dumps.status = "ok" /\ ev.obs.dumps.b = AndBytes(b, mask) THEN {}
                ELSE IF (okspec \/ okdev) /\ ev.obs.dumps.status = "ok" /\ ev.obs.dumps.b = EncodeKnownDeviation(T(ev), M(ev), uv) THEN {"dumps", "KF:F16"}
                ELSE {"dumps"})
          \cup (IF ev.ev = "Parse" /\ (ev.obs.pos # SizeOf(T(ev), M(ev)) \/ Len(ev.input) < SizeOf(T(ev), M(ev))) THEN {"size"} ELSE {})

Init == l = 1 /\ buf = << >>
Step == /\ l <= Len(Events)
        /\ LET ev == Events[l]
               spec == NextBuf(ev, FALSE)
               dev == NextBuf(ev, TRUE)
           IN /\ PrintT(<<"VERDICT", ev.id, Clauses(ev, spec, dev)>>)
              /\ buf' = IF ev.obs.status = "ok" /\ ~MembersMatch(ev, spec) /\ MembersMatch(ev, dev) THEN dev ELSE spec
        /\ l' = l + 1
Spec == Init /\ [][Step]_vars
=============================================================================
