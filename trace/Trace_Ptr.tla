------------------------------ MODULE Trace_Ptr ------------------------------
(***************************************************************************)
(* C16 trace validation: histories on one stream.                          *)
(*   Parse        a structure with pointer fields is read at `start`       *)
(*   Deref(f)     field f is dereferenced (obs: outcome, stream position)  *)
(*   Arith(f,op,n) pointer arithmetic, then dereference of the result      *)
(*   Dump         the structure is dumped                                  *)
(*   Default      a default-constructed structure (pointers have no stream)*)
(*   Built        a union built from a value (address set, still no stream)*)
(* State: stream position and the parsed value (addresses of the fields).  *)
(***************************************************************************)
EXTENDS PtrSpec, TLC, Json, IOUtils

Events == ndJsonDeserialize(IOEnv.TRACE_FILE)
VARIABLES l, pos, val, hasStream
vars == <<l, pos, val, hasStream>>

\* the pointer an event is about: field f itself, or element `elem` of field f when that is an array of pointers
IsElem(ev) == "elem" \in DOMAIN ev /\ ev.elem > 0
FieldType(ev) == IF IsElem(ev) THEN ev.type.fields[ev.field].type.elem ELSE ev.type.fields[ev.field].type
AddrOf(ev) == IF IsElem(ev) THEN val.vals[ev.field].items[ev.elem].addr ELSE val.vals[ev.field].addr

\* the specification has a value for the structure (the Parse of this history was accepted by Decode); when it was not, the
\* Parse event already carries the verdict and the events after it cannot be judged
HasVal == val.k = "struct"
Clauses(ev) ==
  IF ev.ev \in {"Deref", "DerefFault", "Arith", "Dump"} /\ ~HasVal THEN {"SKIP:after-rejected-parse"} ELSE
  CASE ev.ev = "Parse" ->
         LET r == Decode(ev.type, ev.mode, ev.input, ev.start, << >>, ev.consts) IN
         (IF r.ok /\ ev.obs.status = "ok" /\ ev.obs.v = r.v THEN {} ELSE {"parse"})
         \cup (IF r.ok /\ ev.obs.pos # r.pos THEN {"width"} ELSE {})
    [] ev.ev = "Default" -> {}
    [] ev.ev = "Built" -> {}
    [] ev.ev = "Deref" ->
         LET d == Deref(AddrOf(ev), FieldType(ev).target, ev.mode, ev.input, hasStream, ev.consts) IN
         (IF ev.obs.status = d.status /\ (d.status = "ok" => ev.obs.v = d.v) THEN {} ELSE {"deref"})
         \cup (IF hasStream /\ ev.obs.pos # pos THEN {"moved"} ELSE {})
         \cup (IF ev.obs.status = "ok" /\ ~ev.obs.again_same THEN {"unstable"} ELSE {})
    \* the stream raised during the dereference: whatever is reported, the stream is where it was
    [] ev.ev = "DerefFault" -> IF hasStream /\ ev.obs.pos # pos THEN {"moved"} ELSE {}
    [] ev.ev = "Arith" ->
         LET a == ToInt(AddrOf(ev))
             na == ArithAddr(ev.op, a, ev.n)
         \* TLC integers are 32 bit: the operand is bounded before the operator (up to << 16) is applied
         IN IF ~SmallInt(AddrOf(ev)) \/ a > 30000 \/ na < 0 \/ na > 1000000 THEN {"SKIP:domain"}
            ELSE LET d == Deref(FromInt(na), FieldType(ev).target, ev.mode, ev.input, hasStream, ev.consts) IN
                 (IF ev.obs.sameclass /\ ev.obs.addr = FromInt(na) THEN {} ELSE {"arith"})
                 \cup (IF ev.obs.status = d.status /\ (d.status = "ok" => ev.obs.v = d.v) THEN {} ELSE {"arith-deref"})
                 \cup (IF hasStream /\ ev.obs.pos # pos THEN {"moved"} ELSE {})
    [] ev.ev = "Dump" ->
         IF ev.obs.status = "ok" /\ ev.obs.b = Enc(ev.type, ev.mode, val, 0).b THEN {} ELSE {"dump"}

Init == l = 1 /\ pos = 0 /\ val = NoVal /\ hasStream = FALSE
Step == /\ l <= Len(Events) /\ Events[l].ev = "New" /\ l' = l + 1 /\ pos' = 0 /\ val' = NoVal /\ hasStream' = FALSE
Step2 == /\ l <= Len(Events) /\ Events[l].ev # "New"
        /\ LET ev == Events[l] IN
           /\ PrintT(<<"VERDICT", ev.id, Clauses(ev)>>)
           /\ CASE ev.ev = "Parse" -> LET r == Decode(ev.type, ev.mode, ev.input, ev.start, << >>, ev.consts) IN
                                      pos' = r.pos /\ val' = r.v /\ hasStream' = TRUE
                [] ev.ev = "Default" -> pos' = 0 /\ val' = ZeroOf(ev.type, ev.mode) /\ hasStream' = FALSE
                \* a union built from a value: its pointer member has an address but no stream was ever involved (finding F61)
                [] ev.ev = "Built" -> pos' = 0 /\ val' = ev.v /\ hasStream' = FALSE
                [] OTHER -> UNCHANGED <<pos, val, hasStream>>       \* frame condition: nothing else changes the stream
        /\ l' = l + 1
Spec == Init /\ [][Step \/ Step2]_vars
=============================================================================
