---------------------------- MODULE Trace_Session ----------------------------
(***************************************************************************)
(* C14 / C17 trace validation: histories over several cstruct objects and  *)
(* structure instances.  Specification state = the live instances          *)
(* (identifier, owning cstruct object, class, abstract value).             *)
(* Every event is judged for its own result AND for its frame condition:   *)
(* after each event the harness logs the projection of ALL live instances  *)
(* (`snap`), which must equal the specification state - an action changes  *)
(* its target and nothing else.                                            *)
(*   Construct(iid, args, kwargs)   Parse(iid, bytes)   FailedParse(bytes) *)
(*   SetField(iid, path, value)     Dump(iid)           Eq(iid, jid)       *)
(*   Bool(iid)   Load(cs)  SetEndian(cs, e)  AddType(cs)  (other object)   *)
(*   EqPart(iid, member j, jid)  a union's structure member vs an instance *)
(*   Append(iid, member j, value)  an array member grows in place          *)
(***************************************************************************)
EXTENDS SessionSpec, TLC, Json, IOUtils

Events == ndJsonDeserialize(IOEnv.TRACE_FILE)
VARIABLES l, inst          \* inst: sequence of [iid, cs, cls, type, mode, val]
vars == <<l, inst>>

Find(iid) == inst[CHOOSE j \in 1..Len(inst) : inst[j].iid = iid]
Replace(iid, rec) == [j \in 1..Len(inst) |-> IF inst[j].iid = iid THEN rec ELSE inst[j]]
SnapOf(s) == [j \in 1..Len(s) |-> <<s[j].iid, s[j].val>>]

New(ev, v) == [iid |-> ev.iid, cs |-> ev.cs, cls |-> ev.type.name, type |-> ev.type, mode |-> ev.mode, val |-> v]

NextInst(ev) ==
  CASE ev.ev = "Construct" -> IF ev.obs.status = "ok" THEN Append(inst, New(ev, Init(ev.type, ev.mode, ev.args, ev.kwargs))) ELSE inst
    [] ev.ev = "Parse"     -> LET r == Decode(ev.type, ev.mode, ev.input, 0, << >>, ev.consts) IN
                              \* an instance exists only when the implementation returned one (a disagreement is flagged by parse-pure)
                              IF r.ok /\ ev.obs.status = "ok" THEN Append(inst, New(ev, r.v)) ELSE inst
    [] ev.ev = "SetField"  -> IF ev.obs.status # "ok" THEN inst
                              ELSE LET o == Find(ev.iid) IN Replace(ev.iid, [o EXCEPT !.val = UpdPath(o.val, ev.path, ev.value)])
    \* an array member changed in place (list.append): like every other change it belongs to this instance alone (seed S103)
    [] ev.ev = "Append"    -> LET o == Find(ev.iid) IN
                              Replace(ev.iid, [o EXCEPT !.val.vals[ev.j].items = Append(@, ev.value)])
    [] OTHER -> inst        \* Dump, Eq, Bool, FailedParse, Load, SetEndian, AddType change no instance

Clauses(ev, nxt) ==
  (IF ev.snap = SnapOf(nxt) THEN {} ELSE {"frame"})
  \cup
  (CASE ev.ev = "Construct" -> IF ev.obs.status = "ok" /\ ev.obs.v = Init(ev.type, ev.mode, ev.args, ev.kwargs) THEN {} ELSE {"construct"}
     [] ev.ev = "Parse" -> LET r == Decode(ev.type, ev.mode, ev.input, 0, << >>, ev.consts) IN
                           IF r.ok /\ ev.obs.status = "ok" /\ ev.obs.v = r.v THEN {}
                           ELSE IF ~r.ok /\ ev.obs.status # "ok" THEN {}
                           \* input cut inside padding that carries no data: the statement leaves value-or-EOFError open (Codec.tla, "lax")
                           ELSE IF r.ok /\ (("lax" \in r.fl /\ ev.obs.status = "eof") \/ ("laxdecode" \in r.fl /\ ev.obs.status = "decode")) THEN {}
                           ELSE {"parse-pure"}
     [] ev.ev = "Dump" -> LET o == Find(ev.iid) IN
                          IF ~Writable(o.type, o.mode) \/ ~Fits(o.type, o.mode, o.val) THEN {}
                          ELSE IF ev.obs.status = "ok" /\ ev.obs.b = Enc(o.type, o.mode, o.val, 0).b THEN {}
                          ELSE IF ev.obs.status = "ok" /\ ev.obs.b = EncodeKnownDeviation(o.type, o.mode, o.val) THEN {"dump", "KF:F16"} ELSE {"dump"}
     [] ev.ev = "Eq" -> LET a == Find(ev.iid)
                            b == Find(ev.jid)
                            same == a.cs = b.cs /\ a.cls = b.cls /\ ValEq(a.val, b.val)
                        IN (IF ev.obs.eq = same THEN {} ELSE {"eq"})
                           \cup (IF same /\ ev.obs.hashable /\ ~ev.obs.heq THEN {"hash"} ELSE {})
     \* a structure that is a member of a union (the implementation hands out a proxy for it) against a free-standing instance:
     \* the same value whichever side it stands on (finding F57)
     [] ev.ev = "EqPart" -> LET a == Find(ev.iid).val.vals[ev.j]
                                b == Find(ev.jid)
                                same == a.k = "struct" /\ a.cls = b.cls /\ ValEq(a, b.val)
                            IN (IF ev.obs.lr = same THEN {} ELSE {"eq"})
                               \cup (IF ev.obs.rl = same THEN {} ELSE {"eq-symmetry"})
                               \cup (IF same /\ ev.obs.hashable /\ ~ev.obs.heq THEN {"hash"} ELSE {})
     [] ev.ev = "SetField" -> IF ev.obs.status = "ok" THEN {} ELSE {"setfield"}
     [] ev.ev = "Bool" -> IF ("raised" \in DOMAIN ev.obs /\ ev.obs.raised) \/ ev.obs.result # Bool(Find(ev.iid).val) THEN {"bool"} ELSE {}
     [] OTHER -> {})

Init0 == l = 1 /\ inst = << >>
Reset == /\ l <= Len(Events) /\ Events[l].ev = "New" /\ inst' = << >> /\ l' = l + 1
Step == /\ l <= Len(Events) /\ Events[l].ev # "New"
        /\ LET ev == Events[l]
               nxt == NextInst(ev)
           IN /\ PrintT(<<"VERDICT", ev.id, Clauses(ev, nxt)>>)
              /\ inst' = nxt
        /\ l' = l + 1
Spec == Init0 /\ [][Reset \/ Step]_vars
=============================================================================
