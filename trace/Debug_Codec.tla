---------------------------- MODULE Debug_Codec ----------------------------
(* Diagnostic companion of Trace_Codec: prints what the specification says for each recorded scenario. *)
EXTENDS Trace_Codec

DInit == tid = 1
DNext == /\ tid <= Len(Traces)
         /\ LET T == Traces[tid]
                r == Decode(T.type, T.mode, T.input, T.start, << >>, T.consts)
            IN /\ PrintT(<<"SPEC-LAYOUT", T.id, LayoutObs(T.type, T.mode)>>)
               /\ PrintT(<<"SPEC-DECODE", T.id, r>>)
               /\ (r.ok /\ Writable(T.type, T.mode) => PrintT(<<"SPEC-ENC", T.id, Enc(T.type, T.mode, r.v, 0)>>))
               /\ PrintT(<<"VERDICT", T.id, Verdict(T)>>)
         /\ tid' = tid + 1
DSpec == DInit /\ [][DNext]_tid
=============================================================================
