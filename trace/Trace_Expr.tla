----------------------------- MODULE Trace_Expr -----------------------------
(***************************************************************************)
(* C10 trace validation.  Each record: an expression text (character       *)
(* codes), two identifier contexts, constants, type sizes for sizeof, and  *)
(* what a real Expression object returned for                              *)
(*    fresh1   a fresh object evaluated with ctx1                          *)
(*    second   the SAME object evaluated again with ctx2                   *)
(*    again1   the same object evaluated a third time with ctx1            *)
(*    fresh2   another fresh object evaluated with ctx2                    *)
(* and, for kind "arrlen", the number of elements of an array declared     *)
(* with that length when parsed from bytes giving the context.             *)
(* The oracle is Meaning() of module ExprGrammar (the C grammar) on        *)
(* range-guarded integers, and BigMeaning() of module ExprBig - the same   *)
(* grammar over unbounded integers - for records of kind "evalbig" (limb   *)
(* values in contexts, constants and results); on every small record both  *)
(* must agree.                                                             *)
(***************************************************************************)
EXTENDS ExprBig, TLC, Json, IOUtils

Traces == ndJsonDeserialize(IOEnv.TRACE_FILE)

Agrees(o, v) == o.status = "ok" /\ o.v = v

ToBig(m) == [j \in 1..Len(m) |-> <<m[j][1], FromInt(m[j][2])>>]
BigEnv(ctx, T) == [ctx |-> ToBig(ctx), consts |-> ToBig(T.consts), sizes |-> T.sizes]
BigClauses(T) ==
  LET e1 == [ctx |-> T.ctx1, consts |-> T.consts, sizes |-> T.sizes]
      e2 == [ctx |-> T.ctx2, consts |-> T.consts, sizes |-> T.sizes]
      b1 == BigMeaning(T.text, e1)
      b2 == BigMeaning(T.text, e2)
  IN IF ~b1.wf THEN {"SPECBUG:generated-text-not-wellformed"}
     ELSE IF ~IsDef(b1.v) \/ ~IsDef(b2.v) THEN {"SKIP:domain"}
     ELSE (IF Agrees(T.obs.fresh1, b1.v) THEN {} ELSE {"value"})
          \cup (IF Agrees(T.obs.fresh2, b2.v) THEN {} ELSE {"value"})
          \cup (IF Agrees(T.obs.second, b2.v) /\ Agrees(T.obs.again1, b1.v) THEN {} ELSE {"repeat"})

Clauses(T) ==
  IF T.kind = "evalbig" THEN BigClauses(T) ELSE
  LET e1 == [ctx |-> T.ctx1, consts |-> T.consts, sizes |-> T.sizes]
      e2 == [ctx |-> T.ctx2, consts |-> T.consts, sizes |-> T.sizes]
      m1 == Meaning(T.text, e1)
      m2 == Meaning(T.text, e2)
  IN IF ~m1.wf THEN {"SPECBUG:generated-text-not-wellformed"}
     ELSE IF m1.v = XX \/ m2.v = XX THEN {"SKIP:domain"}
     ELSE IF T.kind = "arrlen" /\ m1.v > 4000 THEN {"SKIP:array-too-long-for-the-input"}
     ELSE IF T.kind = "arrlen" THEN (IF T.obs.status = "ok" /\ T.obs.n = Max2(0, m1.v) THEN {} ELSE {"arrlen"})
     ELSE (IF Agrees(T.obs.fresh1, m1.v) THEN {} ELSE {"value"})
          \cup (IF Agrees(T.obs.fresh2, m2.v) THEN {} ELSE {"value"})
          \cup (IF Agrees(T.obs.second, m2.v) /\ Agrees(T.obs.again1, m1.v) THEN {} ELSE {"repeat"})
          \* the two formulations of the grammar's meaning agree wherever the guarded one is defined
          \cup (IF BigMeaning(T.text, BigEnv(T.ctx1, T)).v = FromInt(m1.v) /\ BigMeaning(T.text, BigEnv(T.ctx2, T)).v = FromInt(m2.v)
                THEN {} ELSE {"SPECBUG:big-vs-small"})

VARIABLE tid
Init == tid = 1
Next == /\ tid <= Len(Traces)
        /\ PrintT(<<"VERDICT", Traces[tid].id, Clauses(Traces[tid])>>)
        /\ tid' = tid + 1
Spec == Init /\ [][Next]_tid
=============================================================================
