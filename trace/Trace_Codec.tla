---------------------------- MODULE Trace_Codec ----------------------------
(***************************************************************************)
(* Trace validation for the codec family (C01-C09, C16 sizes, C18).        *)
(* Each line of IOEnv.TRACE_FILE is one recorded execution of the real     *)
(* library: a scenario (abstract type, mode, input, start offset, ...)     *)
(* plus what the implementation was observed to do.  One TLC state per     *)
(* trace; the verdict is the set of clauses of the specification the       *)
(* observation contradicts (empty = the run is a behaviour of the spec).   *)
(***************************************************************************)
EXTENDS PlanSpec, TLC, Json, IOUtils

Traces == ndJsonDeserialize(IOEnv.TRACE_FILE)

Has(rec, f) == f \in DOMAIN rec

\* which definitions the source generator must handle (else: load, fall back, behave like Decode)
Compilable(t) == t.k = "struct" /\ \A i \in 1..Len(t.fields) : t.fields[i].type.k # "leb"

\* recorded sizes agree on every field that occupies bytes (void members and empty arrays record 0 or nothing)
SizesEq(a, b) == Len(a) = Len(b) /\ \A i \in 1..Len(a) : a[i] = b[i] \/ (a[i] <= 0 /\ b[i] <= 0)

\* what the run of one reader shows: status, value, position, sizes
SameRun(a, b, lax) ==
  /\ (a.status = b.status \/ lax)
  /\ (a.status = "ok" /\ b.status = "ok" => a.v = b.v /\ (lax \/ (a.pos = b.pos /\ SizesEq(a.sizes, b.sizes))))

\* C04: for a fixed-size type len(T), sizeof(T) in an expression, bytes consumed and bytes dumped are one number
SizeAgree(T, r, o) ==
  LET sz == SizeOf(T.type, T.mode) IN
  IF sz = Dyn THEN T.obs.layout.size = Dyn /\ T.obs.sizeof = -1
  ELSE /\ T.obs.layout.size = sz /\ T.obs.sizeof = sz
       /\ (r.ok /\ o.status = "ok" => o.pos - T.start = sz)
       /\ (r.ok /\ o.status = "ok" /\ o.dump.status = "ok" => Len(o.dump.b) = sz)

\* C09: every call form x input kind is the same action as the reference run
FormsAgree(forms, o) ==
  \A i \in 1..Len(forms) :
     LET f == forms[i] IN
     /\ f.status = o.status
     \* T(b) with a bytes object exactly as long as the single char member of T is the documented value shortcut: the same
     \* value, but an instance that was not parsed records no sizes
     /\ (f.status = "ok" => /\ f.v = o.v
                            /\ (SizesEq(f.sizes, o.sizes) \/ (f.form = "call" /\ f.kind = "bytes" /\ \A j \in 1..Len(f.sizes) : f.sizes[j] = -1))
                            /\ (f.pos = -1 \/ f.pos = o.pos))

ParseClauses(T) ==
  LET r == Decode(T.type, T.mode, T.input, T.start, << >>, T.consts)
      o == T.obs.res
      lax == "lax" \in r.fl
      bothok == r.ok /\ o.status = "ok"
      strict == bothok /\ ~lax
      canwrite == strict /\ Writable(T.type, T.mode) /\ ("nonmin" \notin r.fl)
      enc == Enc(T.type, T.mode, r.v, 0)
      window == Slice(T.input, T.start, r.pos - T.start)
  IN IF r.err = "domain" THEN {"SKIP:domain"}
     ELSE IF "nan" \in r.fl THEN {"SKIP:nan"}
     ELSE
       (IF LayoutObs(T.type, T.mode) = T.obs.layout THEN {} ELSE {"layout"})
       \cup (IF r.ok THEN (IF o.status = "ok" \/ (lax /\ o.status = "eof") \/ ("laxdecode" \in r.fl /\ o.status = "decode") THEN {} ELSE {"status"})
             ELSE (IF ErrMatches(o.status, r.err) THEN {} ELSE {"status"}))
       \cup (IF bothok /\ o.v # r.v THEN {"value"} ELSE {})
       \cup (IF strict /\ o.pos # r.pos THEN {"pos"} ELSE {})
       \cup (IF strict /\ T.type.k \in {"struct", "union"} /\ ~SizesEq(o.sizes, r.sizes) THEN {"sizes"} ELSE {})
       \cup (IF canwrite /\ (o.dump.status # "ok" \/ o.dump.b # enc.b) THEN {"dump"} ELSE {})
       \cup (IF canwrite /\ o.dump.status = "ok"
                /\ (Len(o.dump.b) # r.pos - T.start \/ o.dump.b # AndBytes(window, enc.k)) THEN {"fidelity"} ELSE {})
       \* a partial trailing element of x[EOF]: an error, or the whole elements - but then what was consumed is what is dumped
       \* (C02); a reader that swallows the partial element and returns a value consumed more than it can give back (seed S111)
       \cup (IF bothok /\ "laxeof" \in r.fl /\ Writable(T.type, T.mode) /\ o.dump.status = "ok" /\ Len(o.dump.b) # o.pos - T.start
             THEN {"fidelity"} ELSE {})
       \* write() reports the number of bytes it produced (and produces what dumps() does)
       \cup (IF canwrite /\ o.dump.status = "ok" /\ Has(o.dump, "wcount") /\ o.dump.wcount # Len(o.dump.b) THEN {"write-count"} ELSE {})
       \cup (IF canwrite /\ enc.b # AndBytes(window, enc.k) THEN {"SPECBUG:fidelity-theorem"} ELSE {})
       \cup (IF canwrite /\ o.dump.status = "ok" /\ o.dump.b # enc.b /\ o.dump.b = EncodeKnownDeviation(T.type, T.mode, r.v)
             THEN {"KF:F16"} ELSE {})
       \cup (IF canwrite /\ o.dump.status = "ok"
                /\ (o.re.status # "ok" \/ o.re.v # o.v \/ o.re.pos # Len(o.dump.b)) THEN {"reparse"} ELSE {})
       \* also: one reader returns a value where the other raises.  Two failures of different classes agree when the
       \* specification leaves open which is noticed first (eof-or-decode)
       \cup (IF Has(T.obs, "res2") /\ ~SameRun(o, T.obs.res2, lax)
                /\ ~(~r.ok /\ r.err = "eof-or-decode" /\ ErrMatches(o.status, r.err) /\ ErrMatches(T.obs.res2.status, r.err))
             THEN {"equiv"} ELSE {})
       \cup (IF Has(T.obs, "res2") /\ ~r.ok /\ o.status = "ok" /\ T.obs.res2.status = "ok" /\ o.v # T.obs.res2.v THEN {"equiv"} ELSE {})
       \cup (IF Has(T.obs, "layout2") /\ T.obs.layout2 # T.obs.layout THEN {"equiv-layout"} ELSE {})
       \cup (IF Has(T.obs, "sizeof") /\ ~SizeAgree(T, r, o) THEN {"sizeagree"} ELSE {})
       \cup (IF Has(T.obs, "forms") /\ ~FormsAgree(T.obs.forms, o) THEN {"forms"} ELSE {})
       \cup (IF Has(T.obs, "plan") /\ T.type.k = "struct" /\ T.obs.plan # Shape(T.type, T.mode, GenPlan(T.type, T.mode, FALSE))
             THEN {"DRIFT:plan"} ELSE {})       \* the generated source no longer has the shape the Plan model predicts (not a violation)
       \cup (IF Has(T.obs, "compiled") /\ T.obs.compiled # Compilable(T.type) THEN {"compilable"} ELSE {})

\* a directly constructed value: dump, re-parse, refusal of numbers that do not fit
ValueClauses(T) ==
  LET o == T.obs
      fits == Fits(T.type, T.mode, T.v)
  IN IF ~Writable(T.type, T.mode) THEN {"SKIP:unwritable"}
     ELSE IF ~fits THEN (IF o.dump.status = "ok" THEN {"reject"} ELSE {})
     ELSE LET enc == Enc(T.type, T.mode, T.v, 0) IN
          (IF o.dump.status # "ok" \/ o.dump.b # enc.b THEN {"dump"} ELSE {})
          \cup (IF o.dump.status = "ok" /\ (o.re.status # "ok" \/ o.re.v # T.v \/ o.re.pos # Len(o.dump.b)) THEN {"reparse"} ELSE {})
          \cup (LET r == Decode(T.type, T.mode, enc.b, 0, << >>, T.consts) IN
                IF ~r.ok \/ r.v # T.v \/ r.pos # Len(enc.b) THEN {"SPECBUG:roundtrip-theorem"} ELSE {})

\* a definition is accepted exactly when it is well formed (no bit-field straddles its storage unit)
LoadClauses(T) == IF T.loaded = WellFormed(T.type, T.mode) THEN {} ELSE {"load"}

\* a parse under an injected stream fault (C08): the k-th read call delivers fewer bytes than requested, or raises.
\* Either an error comes out (EOFError for the short read, the injected exception unchanged) or the value of the
\* undisturbed parse; never anything else.
FaultClauses(T) ==
  LET r == Decode(T.type, T.mode, T.input, T.start, << >>, T.consts)
      o == T.obs.res
  IN IF r.err = "domain" THEN {"SKIP:domain"}
     ELSE IF "nan" \in r.fl THEN {"SKIP:nan"}
     ELSE IF HasEof(T.type) THEN {"SKIP:eof-array-under-fault"}   \* the end-of-stream probe itself is what the fault hits
     ELSE IF o.status = "ok" THEN (IF r.ok /\ o.v = r.v THEN {} ELSE {"fabricated"})
     ELSE IF T.fault.kind = "raise" THEN (IF o.status = "injected" \/ (~r.ok /\ ErrMatches(o.status, r.err)) THEN {} ELSE {"fault-status"})
     ELSE (IF o.status = "eof" \/ (~r.ok /\ ErrMatches(o.status, r.err)) THEN {} ELSE {"fault-status"})

\* C18: the class is extended in batches; after every commit its layout is the layout of the fields it has then
CommitClauses(T) ==
  LET Pre(n) == [T.type EXCEPT !.fields = SubSeq(T.type.fields, 1, n)] IN
  (IF \A k \in 1..Len(T.cuts) : T.layouts[k] = LayoutObs(Pre(T.cuts[k]), T.mode) THEN {} ELSE {"stale-layout"})
  \cup (IF T.compiled = (T.req_compiled /\ Compilable(T.type)) THEN {} ELSE {"compilable"})

\* C04: the declarative layout rule itself is bound to the C ABI - the record holds the offsets the platform's C compiler
\* conventions (ctypes, native or _pack_ = 1) give the same declaration
CtypesClauses(T) ==
  LET l == LayoutObs(T.type, T.mode) IN
  IF l.size = T.obs.layout.size /\ l.offs = T.obs.layout.offs /\ (T.mode.align => l.align = T.obs.layout.align)   \* a packed C struct has alignment 1
  THEN {} ELSE {"SPECBUG:CLayout-differs-from-the-C-ABI"}

\* Two readers of one definition whose layout the specification does not model (explicit, possibly overlapping offsets given to
\* add_field): C03 still says that the compiled and the interpreted reader agree on everything they return.
ReadersClauses(T) ==
  (IF T.obs.layout2 # T.obs.layout THEN {"equiv-layout"} ELSE {})
  \cup (IF T.obs.res.status = T.obs.res2.status
           /\ (T.obs.res.status = "ok" => T.obs.res.v = T.obs.res2.v /\ T.obs.res.pos = T.obs.res2.pos /\ SizesEq(T.obs.res.sizes, T.obs.res2.sizes))
        THEN {} ELSE {"equiv"})

\* a definition that must be refused (a bit-field straddles its unit) but was loaded and used: the verdict is "load"; Decode is
\* not defined for it
Refused(T) == T.kind \in {"parse", "value", "fault", "commits"} /\ T.type.k \in {"struct", "union"} /\ ~WellFormed(T.type, T.mode)
Verdict(T) == CASE Refused(T) -> {"load"}
                [] T.kind = "parse" -> ParseClauses(T)
                [] T.kind = "readers" -> ReadersClauses(T)
                [] T.kind = "ctypes" -> CtypesClauses(T)
                [] T.kind = "commits" -> CommitClauses(T)
                [] T.kind = "value" -> ValueClauses(T)
                [] T.kind = "load"  -> LoadClauses(T)
                [] T.kind = "fault" -> FaultClauses(T)

VARIABLE tid
Init == tid = 1
Next == /\ tid <= Len(Traces)
        /\ PrintT(<<"VERDICT", Traces[tid].id, Verdict(Traces[tid])>>)
        /\ tid' = tid + 1
Spec == Init /\ [][Next]_tid
=============================================================================
