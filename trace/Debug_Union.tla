---------------------------- MODULE Debug_Union ----------------------------
EXTENDS Trace_Union
DStep == /\ l <= Len(Events)
         /\ LET ev == Events[l]
                spec == NextBuf(ev, FALSE)
                dev == NextBuf(ev, TRUE)
            IN /\ PrintT(<<"EVENT", ev.id, ev.ev, "spec buf", spec, "dev buf", dev>>)
               /\ PrintT(<<"SPEC-VIEWS", [j \in 1..Len(T(ev).fields) |-> Views(T(ev), M(ev), spec, K(ev))[j].v]>>)
               /\ PrintT(<<"OBS-VIEWS", ev.obs.members, ev.obs.dumps>>)
               /\ PrintT(<<"VERDICT", ev.id, Clauses(ev, spec, dev)>>)
               /\ buf' = IF ev.obs.status = "ok" /\ ~MembersMatch(ev, spec) /\ MembersMatch(ev, dev) THEN dev ELSE spec
         /\ l' = l + 1
DSpec == Init /\ [][DStep]_vars
=============================================================================
