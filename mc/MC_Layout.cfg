SPECIFICATION Spec
INVARIANT LoopIsCRule
INVARIANT NoStaleOffset
INVARIANT AlignLemmas
CHECK_DEADLOCK FALSE
