SPECIFICATION Spec
CONSTANT SkipBitAlign = FALSE
INVARIANT WriterIsEnc
INVARIANT CountIsLength
CHECK_DEADLOCK FALSE
