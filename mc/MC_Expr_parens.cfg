SPECIFICATION Spec
CONSTANT MaxOps = 2
CONSTANT Leaves = {"lit"}
CONSTANT UnaryMarker = "-u"
CONSTANT Spacings = {FALSE}
INVARIANT MachineIsC
INVARIANT NoError
INVARIANT GrammarIsTree
INVARIANT Repeatable
PROPERTY RewriteIdempotent
CHECK_DEADLOCK FALSE
