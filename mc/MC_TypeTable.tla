---------------------------- MODULE MC_TypeTable ----------------------------
(***************************************************************************)
(* C13 on the specification: all histories of at most Depth add_type       *)
(* calls over NNames names and two type objects (chains, cycles,           *)
(* re-declarations, unknown targets, replace = TRUE/FALSE).                *)
(*   ResolveTerminates / ResolveIsMeaning  the bounded loop returns the    *)
(*        type at the end of the chain, or the error - never another type  *)
(*   SameObject   all names whose chains end in one type resolve to that   *)
(*        very type                                                        *)
(*   Redeclare    a re-declaration (replace = FALSE) that is accepted      *)
(*        leaves the meaning of the name unchanged, unless the old entry   *)
(*        did not resolve at all (or the new target is the name itself)    *)
(***************************************************************************)
EXTENDS TypeTable, TLC

CONSTANTS NNames, Depth
Names == 1..NNames
Types == {[t |-> "type", id |-> 100], [t |-> "type", id |-> 200]}
Targets == Types \cup {[t |-> "name", id |-> n] : n \in 1..(NNames + 1)}      \* NNames + 1 is never declared: an unknown name

VARIABLES tab, n, last
vars == <<tab, n, last>>
Init == tab = [x \in {} |-> NoType] /\ n = 0 /\ last = [name |-> 0, ok |-> TRUE, before |-> NoType, replace |-> FALSE]
Add(name, target, replace) ==
  /\ n < Depth
  /\ LET r == AddType(tab, name, target, replace) IN
     /\ tab' = r.tab
     /\ last' = [name |-> name, ok |-> r.ok, before |-> IF name \in DOMAIN tab THEN Meaning(tab, name) ELSE NoType, replace |-> replace]
  /\ n' = n + 1
Next == \E name \in Names, target \in Targets, replace \in BOOLEAN : Add(name, target, replace)
Spec == Init /\ [][Next]_vars

ResolveIsMeaning == \A x \in Names : ChainLen(tab, x, {}) <= HopBound => ResolveLoop(tab, x, HopBound) = Meaning(tab, x)
NeverBindsElsewhere == \A x \in Names : ResolveLoop(tab, x, HopBound) \in {NoType, Meaning(tab, x)}
SameObject == \A x, y \in DOMAIN tab : IsType(Meaning(tab, x)) /\ Meaning(tab, x) = Meaning(tab, y) => Resolve(tab, [t |-> "name", id |-> x]) = Resolve(tab, [t |-> "name", id |-> y])
\* (re-declaring a name as an alias of itself is accepted and leaves it cyclic, i.e. unresolvable - never bound to another type)
Redeclare == last.name # 0 /\ last.ok /\ ~last.replace /\ IsType(last.before) => Meaning(tab, last.name) \in {last.before, NoType}
Refused == last.name # 0 /\ ~last.ok => ~last.replace
=============================================================================
