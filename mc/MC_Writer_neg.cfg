SPECIFICATION Spec
CONSTANT SkipBitAlign = TRUE
INVARIANT WriterIsEnc
CHECK_DEADLOCK FALSE
