SPECIFICATION Spec
CONSTANT NThreads = 2
CONSTANT Shared = FALSE
INVARIANT Isolated
PROPERTY BenignShared
CHECK_DEADLOCK FALSE
