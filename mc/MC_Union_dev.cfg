SPECIFICATION Spec
CONSTANT Depth = 3
CONSTANT Whole = TRUE
INVARIANT SizeIsLargest
INVARIANT AllViewsOk
INVARIANT Visible
INVARIANT OthersKeep
INVARIANT DumpIsBuffer
CHECK_DEADLOCK FALSE
