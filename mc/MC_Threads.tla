----------------------------- MODULE MC_Threads -----------------------------
(***************************************************************************)
(* C15 on the specification: Threads run Expression.evaluate() on ONE      *)
(* shared Expression object (the array-length expression stored in a       *)
(* shared array type) at the granularity of source lines that touch        *)
(* evaluator state.  Every state component is either shared (the token     *)
(* list of the object, and - when Shared = TRUE - its stack and queue) or  *)
(* local to the call.  TLC explores ALL interleavings.                     *)
(*   Shared = FALSE (the repaired code: stacks are locals of evaluate):    *)
(*       Isolated      every thread returns what it returns running alone  *)
(*       BenignShared  the only write to shared state is the idempotent    *)
(*                     rewrite of '-' into the unary marker                *)
(*   Shared = TRUE (the code before the fix of finding F13): TLC produces  *)
(*       a counter-example with a single preemption - used as the negative *)
(*       control of the check.                                             *)
(***************************************************************************)
EXTENDS Integers, Sequences, FiniteSets, TLC

CONSTANTS NThreads, Shared      \* TRUE: evaluator stacks live on the shared Expression object (pinned code); FALSE: local to the call

Threads == 1..NThreads
\* expression  a * 2 + b   as token records
N(v) == [t |-> "n", v |-> v, s |-> ""]
I(x) == [t |-> "i", v |-> 0, s |-> x]
O(x) == [t |-> "o", v |-> 0, s |-> x]
Toks == << O("-"), I("a"), O("*"), N(2), O("+"), I("b") >>      \* -a * 2 + b
Ctx == [th \in Threads |-> [a |-> th, b |-> (th % 2)]]
Solo(th) == (-(Ctx[th].a)) * 2 + Ctx[th].b

Prec(o) == CASE o \in {"+", "-"} -> 4 [] o = "*" -> 5 [] o = "u" -> 6
Apply(o, a, b) == CASE o = "+" -> a + b [] o = "-" -> a - b [] o = "*" -> a * b

VARIABLES tokens,           \* shared, rewritten in place
          sstack, squeue,   \* scratch on the shared object (used when Shared)
          lstack, lqueue,   \* scratch local to each call (used when ~Shared)
          pc, i, op, right, left, out
vars == <<tokens, sstack, squeue, lstack, lqueue, pc, i, op, right, left, out>>

Stack(th) == IF Shared THEN sstack ELSE lstack[th]
Queue(th) == IF Shared THEN squeue ELSE lqueue[th]
SetStack(th, v) == IF Shared THEN sstack' = v /\ UNCHANGED lstack ELSE lstack' = [lstack EXCEPT ![th] = v] /\ UNCHANGED sstack
SetQueue(th, v) == IF Shared THEN squeue' = v /\ UNCHANGED lqueue ELSE lqueue' = [lqueue EXCEPT ![th] = v] /\ UNCHANGED squeue
Top(s) == s[Len(s)]
Pop(s) == SubSeq(s, 1, Len(s) - 1)

Init == /\ tokens = Toks /\ sstack = << >> /\ squeue = << >>
        /\ lstack = [th \in Threads |-> << >>] /\ lqueue = [th \in Threads |-> << >>]
        /\ pc = [th \in Threads |-> "reset_stack"] /\ i = [th \in Threads |-> 1]
        /\ op = [th \in Threads |-> ""] /\ right = [th \in Threads |-> 0] /\ left = [th \in Threads |-> 0]
        /\ out = [th \in Threads |-> [k |-> "none", v |-> 0]]

Goto(th, l) == pc' = [pc EXCEPT ![th] = l]
Fail(th) == /\ pc' = [pc EXCEPT ![th] = "done"] /\ out' = [out EXCEPT ![th] = [k |-> "error", v |-> 0]]

IsOperator(tk) == tk.t = "o" /\ tk.s \in {"+", "-", "*", "u"}

\* one action per source line that touches evaluator state
ResetStack(th) == pc[th] = "reset_stack" /\ SetStack(th, << >>) /\ Goto(th, "reset_queue")
                  /\ UNCHANGED <<tokens, squeue, lqueue, i, op, right, left, out>>
ResetQueue(th) == pc[th] = "reset_queue" /\ SetQueue(th, << >>) /\ Goto(th, "rewrite") /\ i' = [i EXCEPT ![th] = 1]
                  /\ UNCHANGED <<tokens, sstack, lstack, op, right, left, out>>
Rewrite(th) == /\ pc[th] = "rewrite"
               /\ IF i[th] > Len(tokens) THEN Goto(th, "loop") /\ i' = [i EXCEPT ![th] = 1] /\ UNCHANGED tokens
                  ELSE /\ tokens' = IF tokens[i[th]].s = "-" /\ tokens[i[th]].t = "o" /\ (i[th] = 1 \/ IsOperator(tokens[i[th] - 1]))
                                    THEN [tokens EXCEPT ![i[th]] = O("u")] ELSE tokens
                       /\ i' = [i EXCEPT ![th] = @ + 1] /\ UNCHANGED pc
               /\ UNCHANGED <<sstack, squeue, lstack, lqueue, op, right, left, out>>
Loop(th) == /\ pc[th] = "loop"
            /\ IF i[th] > Len(tokens) THEN Goto(th, "drain") /\ UNCHANGED <<sstack, squeue, lstack, lqueue, i>>
               ELSE LET tk == tokens[i[th]] IN
                    CASE tk.t = "n" -> SetQueue(th, Append(Queue(th), tk.v)) /\ UNCHANGED <<sstack, lstack, pc>> /\ i' = [i EXCEPT ![th] = @ + 1]
                      [] tk.t = "i" -> SetQueue(th, Append(Queue(th), Ctx[th][tk.s])) /\ UNCHANGED <<sstack, lstack, pc>> /\ i' = [i EXCEPT ![th] = @ + 1]
                      [] tk.s = "u" -> SetStack(th, Append(Stack(th), "u")) /\ UNCHANGED <<squeue, lqueue, pc>> /\ i' = [i EXCEPT ![th] = @ + 1]
                      [] OTHER -> \* binary operator: while-condition line
                           IF Len(Stack(th)) # 0 /\ Prec(Top(Stack(th))) >= Prec(tk.s)
                           THEN Goto(th, "exp_pop_op_loop") /\ UNCHANGED <<sstack, squeue, lstack, lqueue, i>>
                           ELSE SetStack(th, Append(Stack(th), tk.s)) /\ UNCHANGED <<squeue, lqueue, pc>> /\ i' = [i EXCEPT ![th] = @ + 1]
            /\ UNCHANGED <<tokens, op, right, left, out>>
Drain(th) == /\ pc[th] = "drain"
             /\ IF Len(Stack(th)) # 0 THEN Goto(th, "exp_pop_op_drain") /\ UNCHANGED out
                ELSE IF Len(Queue(th)) # 1 THEN Fail(th)
                ELSE pc' = [pc EXCEPT ![th] = "done"] /\ out' = [out EXCEPT ![th] = [k |-> "ok", v |-> Queue(th)[1]]]
             /\ UNCHANGED <<tokens, sstack, squeue, lstack, lqueue, i, op, right, left>>
\* evaluate_exp, line by line; ret = where to return
ExpPopOp(th, from, ret) == /\ pc[th] = from
                           /\ IF Len(Stack(th)) = 0 THEN Fail(th) /\ UNCHANGED <<sstack, lstack, op>>   \* IndexError in the code
                              ELSE op' = [op EXCEPT ![th] = Top(Stack(th))] /\ SetStack(th, Pop(Stack(th))) /\ Goto(th, ret) /\ UNCHANGED out
                           /\ UNCHANGED <<tokens, squeue, lqueue, i, right, left>>
ExpPopRight(th, from, ret) == /\ pc[th] = from
                              /\ IF Len(Queue(th)) < 1 THEN Fail(th) /\ UNCHANGED <<squeue, lqueue, right>>
                                 ELSE right' = [right EXCEPT ![th] = Top(Queue(th))] /\ SetQueue(th, Pop(Queue(th))) /\ Goto(th, ret) /\ UNCHANGED out
                              /\ UNCHANGED <<tokens, sstack, lstack, i, op, left>>
ExpUnaryOrLeft(th, from, retpush) == /\ pc[th] = from
                                     /\ IF op[th] = "u" THEN left' = left /\ Goto(th, retpush) /\ UNCHANGED <<squeue, lqueue, out>>
                                        ELSE IF Len(Queue(th)) < 1 THEN Fail(th) /\ UNCHANGED <<squeue, lqueue, left>>
                                        ELSE left' = [left EXCEPT ![th] = Top(Queue(th))] /\ SetQueue(th, Pop(Queue(th))) /\ Goto(th, retpush) /\ UNCHANGED out
                                     /\ UNCHANGED <<tokens, sstack, lstack, i, op, right>>
ExpPush(th, from, ret) == /\ pc[th] = from
                          /\ SetQueue(th, Append(Queue(th), IF op[th] = "u" THEN -right[th] ELSE Apply(op[th], left[th], right[th])))
                          /\ Goto(th, ret)
                          /\ UNCHANGED <<tokens, sstack, lstack, i, op, right, left, out>>

Step(th) == \/ ResetStack(th) \/ ResetQueue(th) \/ Rewrite(th) \/ Loop(th) \/ Drain(th)
            \/ ExpPopOp(th, "exp_pop_op_loop", "exp_right_loop") \/ ExpPopRight(th, "exp_right_loop", "exp_left_loop")
            \/ ExpUnaryOrLeft(th, "exp_left_loop", "exp_push_loop") \/ ExpPush(th, "exp_push_loop", "loop")
            \/ ExpPopOp(th, "exp_pop_op_drain", "exp_right_drain") \/ ExpPopRight(th, "exp_right_drain", "exp_left_drain")
            \/ ExpUnaryOrLeft(th, "exp_left_drain", "exp_push_drain") \/ ExpPush(th, "exp_push_drain", "drain")
Next == \E th \in Threads : Step(th)
Spec == Init /\ [][Next]_vars

Isolated == \A th \in Threads : pc[th] = "done" => out[th] = [k |-> "ok", v |-> Solo(th)]
\* the only shared write allowed: the idempotent '-' -> 'u' rewrite
BenignShared == [][(tokens' = tokens \/ \E k \in 1..Len(tokens) : tokens' = [tokens EXCEPT ![k] = O("u")]) /\ (~Shared => sstack' = sstack /\ squeue' = squeue)]_vars
=============================================================================
