------------------------------ MODULE MC_Codec ------------------------------
(***************************************************************************)
(* Consequences of the codec specification, checked exhaustively over the  *)
(* bounded universe the harness also feeds to the real library (one        *)
(* generator, two consumers: DESIGN.md section 3).                         *)
(*                                                                         *)
(* A case is (definition, mode) from IOEnv.UNIVERSE_FILE; TLC explores,    *)
(* for every case and every input pattern, the history                     *)
(*     Parse ; Dump ; Reparse                                              *)
(* and evaluates in every state:                                           *)
(*   Fidelity   (C02)  dumping what was parsed gives the consumed bytes    *)
(*                     back on every data bit, zero elsewhere              *)
(*   RoundTrip  (C01)  parsing the dump yields the same value and consumes *)
(*                     exactly the dump                                    *)
(*   SizeAgree  (C04)  for fixed-size types size = consumed = dumped       *)
(*   WindowOnly (C09)  the result does not depend on bytes before the      *)
(*                     start offset or after the consumed extent           *)
(***************************************************************************)
EXTENDS Codec, TLC, Json, IOUtils

Universe == ndJsonDeserialize(IOEnv.UNIVERSE_FILE)
N == 40          \* input length

Ramp(n)  == [i \in 1..n |-> i]
Const(n, c) == [i \in 1..n |-> c]
Alt(n)   == [i \in 1..n |-> IF (i % 3) = 0 THEN 0 ELSE IF (i % 3) = 1 THEN 128 ELSE 127]
Small(n) == [i \in 1..n |-> (i * 7) % 4]
Inputs == {Ramp(N), Const(N, 255), Const(N, 128), Const(N, 0), Alt(N), Small(N)}
Starts == {0, 5}          \* an odd start: position independence holds for aligned structures too (alignment is relative)

VARIABLES case, inp, start, phase, val, dump, re
vars == <<case, inp, start, phase, val, dump, re>>

T == Universe[case].type
M == Universe[case].mode
K == Universe[case].consts

Init == /\ case \in {c \in 1..Len(Universe) : WellFormed(Universe[c].type, Universe[c].mode)} /\ inp \in Inputs /\ start \in Starts
        /\ phase = "start" /\ val = ErrR("none") /\ dump = NoBytes /\ re = ErrR("none")

Parse == /\ phase = "start"
         /\ val' = Decode(T, M, inp, start, << >>, K)
         /\ phase' = "parsed" /\ UNCHANGED <<case, inp, start, dump, re>>
CanDump == val.ok /\ val.fl = {} /\ Writable(T, M)
Dump == /\ phase = "parsed" /\ CanDump
        /\ dump' = Enc(T, M, val.v, 0)
        /\ phase' = "dumped" /\ UNCHANGED <<case, inp, start, val, re>>
Reparse == /\ phase = "dumped"
           /\ re' = Decode(T, M, dump.b, 0, << >>, K)
           /\ phase' = "done" /\ UNCHANGED <<case, inp, start, val, dump>>
Next == Parse \/ Dump \/ Reparse
Spec == Init /\ [][Next]_vars

Fidelity == phase \in {"dumped", "done"} =>
              /\ Len(dump.b) = val.pos - start
              /\ dump.b = AndBytes(Slice(inp, start, val.pos - start), dump.k)
RoundTrip == phase = "done" => re.ok /\ re.v = val.v /\ re.pos = Len(dump.b)
SizeAgree == phase \in {"dumped", "done"} /\ SizeOf(T, M) # Dyn =>
              /\ val.pos - start = SizeOf(T, M) /\ Len(dump.b) = SizeOf(T, M)
\* the parse of the window alone, at offset 0, is the same value with the same extent
WindowOnly == phase = "parsed" /\ val.ok /\ "lax" \notin val.fl /\ val.pos <= Len(inp) =>
              LET w == Decode(T, M, Slice(inp, start, val.pos - start), 0, << >>, K)
              IN  w.ok /\ w.v = val.v /\ w.pos = val.pos - start
\* a parse never reads outside its input: an ok result ends inside it unless flagged lax
InBounds == phase = "parsed" /\ val.ok /\ "lax" \notin val.fl => val.pos <= Len(inp)
=============================================================================
