SPECIFICATION Spec
CONSTANT MaxMembers = 4
INVARIANT LoopIsRule
INVARIANT AutoFlagIsPow2
CHECK_DEADLOCK FALSE
