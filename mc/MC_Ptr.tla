------------------------------- MODULE MC_Ptr -------------------------------
(***************************************************************************)
(* C16 on the specification: pointer widths 1/2/4/8 x both byte orders x   *)
(* targets (uint8, uint16, a structure, char string, pointer to uint8) x   *)
(* addresses (0, in range, last byte, beyond the stream), as a state       *)
(* machine over histories Parse ; (Deref | Arith | Dump)*.                 *)
(*   Width        the field occupies exactly the configured width          *)
(*   Unsigned     the address is the unsigned integer stored there         *)
(*   NullIsNull   address 0 dereferences to the dedicated error            *)
(*   DerefIsParse a dereference equals parsing the target at that offset   *)
(*   StreamStays  no action but Parse changes the stream position          *)
(*   DumpIsAddr   dumping reproduces the stored bytes                      *)
(***************************************************************************)
EXTENDS PtrSpec, TLC

Widths == {1, 2, 3, 4, 6, 8}
TU8 == [k |-> "int", name |-> "uint8", size |-> 1, signed |-> FALSE, align |-> 1]
TU16 == [k |-> "int", name |-> "uint16", size |-> 2, signed |-> FALSE, align |-> 2]
Inner == [k |-> "struct", name |-> "in", fields |-> << [name |-> "x", type |-> TU8, bits |-> 0, anon |-> FALSE], [name |-> "y", type |-> TU16, bits |-> 0, anon |-> FALSE] >>]
Targets == {TU8, TU16, Inner, [k |-> "char"], [k |-> "ptr", target |-> TU8]}
N == 12
Content(w, e, a) ==   \* the address a stored at offset 0 in the mode's byte order, then recognisable bytes (with a NUL near the end)
  LET raw == [i \in 1..w |-> IF i = 1 THEN a % 256 ELSE IF i = 2 THEN a \div 256 ELSE 0]
      stored == IF e = "<" THEN raw ELSE Rev(raw)
  IN stored \o [i \in 1..(N - w) |-> IF i = N - w - 1 THEN 0 ELSE 100 + i]

VARIABLES w, e, target, addr, content, pos, val, cache, steps
vars == <<w, e, target, addr, content, pos, val, cache, steps>>
M == [endian |-> e, align |-> FALSE, ptr |-> w]
S == [k |-> "struct", name |-> "P", fields |-> << [name |-> "p", type |-> [k |-> "ptr", target |-> target], bits |-> 0, anon |-> FALSE] >>]

Init == /\ w \in Widths /\ e \in {"<", ">"} /\ target \in Targets
        /\ addr \in {0, 1, w, N - 2, N - 1, N, 200}
        /\ content = Content(w, e, addr) /\ pos = 0 /\ val = NoVal /\ cache = NoVal /\ steps = 0
Parse == /\ val = NoVal
         /\ LET r == Decode(S, M, content, 0, << >>, << >>) IN val' = r.v /\ pos' = r.pos
         /\ UNCHANGED <<w, e, target, addr, content, cache, steps>>
DerefA == /\ val # NoVal /\ steps < 2
          /\ cache' = Deref(val.vals[1].addr, target, M, content, TRUE, << >>)
          /\ steps' = steps + 1 /\ UNCHANGED <<w, e, target, addr, content, pos, val>>
Next == Parse \/ DerefA
Spec == Init /\ [][Next]_vars

Width == val # NoVal => pos = w
Unsigned == val # NoVal => ToInt(val.vals[1].addr) = addr
NullIsNull == cache # NoVal /\ addr = 0 => cache.status = "null"
DerefIsParse == cache # NoVal /\ addr # 0 /\ cache.status = "ok" =>
                  cache.v = Decode(DerefType(target), M, content, addr, << >>, << >>).v
StreamStays == [][val # NoVal => pos' = pos]_vars
DumpIsAddr == val # NoVal => Enc(S, M, val, 0).b = SubSeq(content, 1, w)
=============================================================================
