------------------------------ MODULE MC_Writer ------------------------------
(***************************************************************************)
(* The structure WRITER as a state machine, one step per field, with the   *)
(* variables of StructureMetaType._write and BitBuffer.write / flush:      *)
(*   out        the bytes written so far (stream.tell() = start + Len(out))*)
(*   bt, brem, bbits   BitBuffer._type, ._remaining, ._buffer (the unit's  *)
(*              bits, least significant first)                             *)
(* Per field, in the order of the code:                                    *)
(*   1 flush the open unit if this field is not a bit-field or is one of   *)
(*     another storage type                                                *)
(*   2 pad up to the field's static offset (if it has one)                 *)
(*   3 for a field without static offset in aligned mode: pad to its       *)
(*     alignment, relative to the structure's start - unless it continues  *)
(*     the open unit                                                       *)
(*   4 write: bits into the unit (new unit if none is open / it is used    *)
(*     up; flush when it gets full), or the member's own encoding          *)
(* and after the last field: flush, tail padding.                          *)
(*                                                                         *)
(* WriterIsEnc: for every structure of the bounded universe and every      *)
(* value obtained by decoding the input patterns, the machine produces     *)
(* exactly the bytes of the declarative Enc of module Codec (the oracle of *)
(* C01 / C02 / C06 on the write side).  Nested members are written by Enc  *)
(* (the machine is the loop of ONE structure; nested structures of the     *)
(* universe run through the same loop as top-level cases).                 *)
(* MC_Writer_neg.cfg: with SkipBitAlign the invariant must fail.           *)
(***************************************************************************)
EXTENDS Codec, TLC, Json, IOUtils

CONSTANT SkipBitAlign          \* TRUE: the writer of seeded change S03 (no alignment for bit-fields without static offset) - negative control
Universe == ndJsonDeserialize(IOEnv.UNIVERSE_FILE)
N == 40
Ramp(n)  == [k \in 1..n |-> k]
Const(n, c) == [k \in 1..n |-> c]
Alt(n)   == [k \in 1..n |-> IF (k % 3) = 0 THEN 0 ELSE IF (k % 3) = 1 THEN 128 ELSE 127]
Inputs == {Ramp(N), Const(N, 255), Const(N, 128), Alt(N)}

VARIABLES case, inp, pc, i, out, bt, brem, bbits
vars == <<case, inp, pc, i, out, bt, brem, bbits>>
T == Universe[case].type
M == Universe[case].mode
K == Universe[case].consts
Start == 5                                   \* the structure is written at an odd stream position
Dec == Decode(T, M, inp, 0, << >>, K)
V == Dec.v
Lay == CLayout(T, M)
Usable(c, x) == LET t == Universe[c].type
                    m == Universe[c].mode
                    d == Decode(t, m, x, 0, << >>, Universe[c].consts)
                IN t.k = "struct" /\ WellFormed(t, m) /\ d.ok /\ d.fl = {} /\ Writable(t, m)

Init == /\ case \in 1..Len(Universe) /\ inp \in Inputs /\ Usable(case, inp)
        /\ pc = "field" /\ i = 1 /\ out = << >> /\ bt = "" /\ brem = 0 /\ bbits = << >>

\* BitBuffer.flush(): the unit as an integer of its storage type, in stream byte order
Flushed(o, bits) == IF bits = << >> THEN o ELSE o \o Endian(BitsToBytes(bits), M)
PadOut(o, n) == o \o [k \in 1..n |-> 0]
OffOf(j) == IF Lay.offs[j] >= 0 THEN Lay.offs[j] ELSE -1          \* Field.offset, -1 = None

Step ==
  /\ pc = "field" /\ i <= Len(T.fields)
  /\ LET f == T.fields[i]
         val == V.vals[i]
         isbits == f.bits > 0
         stg == IF isbits THEN Storage(f.type) ELSE [name |-> "", size |-> 0]
         \* 1: flush
         flush1 == (~isbits /\ bt # "") \/ (bt # "" /\ bt # stg.name)
         out1 == IF flush1 THEN Flushed(out, bbits) ELSE out
         bt1 == IF flush1 THEN "" ELSE bt
         brem1 == IF flush1 THEN 0 ELSE brem
         bbits1 == IF flush1 THEN << >> ELSE bbits
         \* 2: static offset
         pad2 == IF OffOf(i) >= 0 /\ Len(out1) < OffOf(i) THEN OffOf(i) - Len(out1) ELSE 0
         out2 == PadOut(out1, pad2)
         \* 3: alignment of a field without static offset
         \* "bit_buffer._type != field_type": for an enum bit-field field_type is the enum class, never the storage type of the unit
         sametype == isbits /\ f.type.k # "enum" /\ bt1 = stg.name
         boundary == bt1 # "" /\ (brem1 = 0 \/ ~sametype)
         a == AlignOf(f.type, M)
         pad3 == IF Aligned(T, M) /\ OffOf(i) < 0 /\ (bt1 = "" \/ boundary) /\ ~(SkipBitAlign /\ isbits)
                 THEN AlignUp(Len(out2), a) - Len(out2) ELSE 0
         out3 == PadOut(out2, pad3)
     IN IF isbits
        THEN \* BitBuffer.write
             LET fresh == brem1 = 0 \/ bt1 # stg.name
                 out4 == IF fresh /\ bt1 # "" THEN Flushed(out3, bbits1) ELSE out3
                 total == 8 * stg.size
                 rem0 == IF fresh THEN total ELSE brem1
                 unit0 == IF fresh THEN Zeros(total) ELSE bbits1
                 raw == IF f.type.k = "enum" THEN val.v ELSE val
                 vb == BytesToBits(MagToLE(raw.mag, stg.size))
                 lo == IF M.endian = "<" THEN total - rem0 ELSE rem0 - f.bits
                 unit1 == [j \in 1..total |-> IF j > lo /\ j <= lo + f.bits THEN BOr(unit0[j], vb[j - lo]) ELSE unit0[j]]
                 rem1 == rem0 - f.bits
             IN IF rem1 = 0
                THEN out' = Flushed(out4, unit1) /\ bt' = "" /\ brem' = 0 /\ bbits' = << >>
                ELSE out' = out4 /\ bt' = stg.name /\ brem' = rem1 /\ bbits' = unit1
        ELSE /\ out' = out3 \o EncX(f.type, M, val, Start + Len(out3), FALSE).b
             /\ bt' = bt1 /\ brem' = brem1 /\ bbits' = bbits1
  /\ i' = i + 1 /\ UNCHANGED <<case, inp, pc>>

Finish ==
  /\ pc = "field" /\ i > Len(T.fields)
  /\ LET o1 == IF bt # "" THEN Flushed(out, bbits) ELSE out
         o2 == IF Aligned(T, M) THEN PadOut(o1, AlignUp(Len(o1), AlignOf(T, M)) - Len(o1)) ELSE o1
     IN out' = o2
  /\ pc' = "done" /\ bt' = "" /\ brem' = 0 /\ bbits' = << >> /\ UNCHANGED <<case, inp, i>>

Next == Step \/ Finish
Spec == Init /\ [][Next]_vars

WriterIsEnc == pc = "done" => out = EncX(T, M, V, Start, FALSE).b
\* what write() returns: everything written since the start of the structure (finding F37)
CountIsLength == pc = "done" /\ SizeOf(T, M) # Dyn => Len(out) = SizeOf(T, M)
=============================================================================
