SPECIFICATION Spec
CONSTANT Sizes = {1, 2, 4}
CONSTANT Widths = {1, 3, 4, 7, 8, 13, 16}
CONSTANT MaxFields = 4
INVARIANT ReadIsDeclarative
INVARIANT InRange
INVARIANT ConsumesWholeUnits
INVARIANT WriteIsInverse
INVARIANT MachineIsCodec
INVARIANT Partition
CHECK_DEADLOCK FALSE
