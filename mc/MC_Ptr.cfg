SPECIFICATION Spec
INVARIANT Width
INVARIANT Unsigned
INVARIANT NullIsNull
INVARIANT DerefIsParse
INVARIANT DumpIsAddr
PROPERTY StreamStays
CHECK_DEADLOCK FALSE
