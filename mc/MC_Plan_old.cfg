SPECIFICATION Spec
CONSTANT OldGen = TRUE
INVARIANT PlanIsDecode
INVARIANT PlanIsDecodeAtOffset
INVARIANT MachineIsFunction
CHECK_DEADLOCK FALSE
