SPECIFICATION Spec
CONSTANT MaxLen = 34
CONSTANT PalLens = {0, 1, 15, 16, 17}
CONSTANT MaxPal = 3
INVARIANT LosslessInv
INVARIANT PrefixInv
INVARIANT NoColorWithoutPalette
CHECK_DEADLOCK FALSE
