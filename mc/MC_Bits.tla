------------------------------- MODULE MC_Bits -------------------------------
(***************************************************************************)
(* The bit buffer as a state machine (mirror of bitbuffer.py, one action   *)
(* per branch of read()/write()/flush()) against the declarative rule of   *)
(* C06: consecutive bit-fields of one storage type share a unit; in little *)
(* endian field k occupies bits [S(k-1), S(k)) counted from the least      *)
(* significant bit of the unit's integer, in big endian counted from the   *)
(* most significant; fields never overlap, values lie in [0, 2^bits), and  *)
(* writing is the inverse of reading.  The same widths are also run        *)
(* through Codec!Decode/Enc, so the functional and the operational         *)
(* formulation are proved equal inside the bounds.                         *)
(*                                                                         *)
(* A case: unit size, endianness, a sequence of widths that never          *)
(* straddles a unit (a unit may be exhausted exactly and a new one         *)
(* started), the stream content.                                           *)
(***************************************************************************)
EXTENDS Codec, TLC

CONSTANTS Sizes, Widths, MaxFields

Pattern(n, p) == CASE p = "ff" -> [i \in 1..n |-> 255] [] p = "80" -> [i \in 1..n |-> 128]
                   [] p = "ramp" -> [i \in 1..n |-> (i * 37 + 11) % 256] [] p = "a5" -> [i \in 1..n |-> IF (i % 2) = 1 THEN 165 ELSE 90]
Patterns == {"ff", "80", "ramp", "a5"}

\* width sequences that never straddle: a running count per unit
RECURSIVE NoStraddle(_, _, _)
NoStraddle(ws, total, used) ==
  IF Len(ws) = 0 THEN TRUE
  ELSE LET u == IF used = total THEN 0 ELSE used IN
       ws[1] <= total - u /\ NoStraddle(Tail(ws), total, u + ws[1])
RECURSIVE UnitsNeeded(_, _, _)
UnitsNeeded(ws, total, used) ==
  IF Len(ws) = 0 THEN 0
  ELSE IF used = 0 \/ used = total THEN 1 + UnitsNeeded(Tail(ws), total, ws[1])
  ELSE UnitsNeeded(Tail(ws), total, used + ws[1])

SeqsUpTo(S, n) == UNION {[1..k -> S] : k \in 1..n}

VARIABLES size, endian, ws, stream,      \* the case
          phase,                          \* "read" -> "write" -> "done"
          i,                              \* next field
          btype, buffer, remaining,       \* the BitBuffer object: _type (0 = None, else unit size), _buffer (bits, LSB first), _remaining
          rpos,                           \* stream read position
          vals,                           \* values read (bit strings, LSB first)
          out                             \* bytes written
vars == <<size, endian, ws, stream, phase, i, btype, buffer, remaining, rpos, vals, out>>

M == [endian |-> endian, align |-> FALSE, ptr |-> 8]
Total == 8 * size

Init == /\ size \in Sizes /\ endian \in {"<", ">"}
        /\ ws \in {w \in SeqsUpTo(Widths, MaxFields) : NoStraddle(w, 8 * size, 0)}
        /\ \E p \in Patterns : stream = Pattern(size * UnitsNeeded(ws, 8 * size, 0), p)
        /\ phase = "read" /\ i = 1 /\ btype = 0 /\ buffer = << >> /\ remaining = 0 /\ rpos = 0 /\ vals = << >> /\ out = << >>

\* ---- read(): "if self._remaining == 0 or self._type != field_type" -> refill from the stream
Refill == /\ phase = "read" /\ i <= Len(ws) /\ (remaining = 0 \/ btype # size)
          /\ btype' = size /\ remaining' = Total
          /\ buffer' = BytesToBits(Endian(Slice(stream, rpos, size), M))    \* the unit's integer in stream endianness
          /\ rpos' = rpos + size
          /\ UNCHANGED <<size, endian, ws, stream, phase, i, vals, out>>
\* ---- read(): extract `bits` bits
Take == /\ phase = "read" /\ i <= Len(ws) /\ remaining # 0 /\ btype = size
        /\ LET bits == ws[i] IN
           /\ bits <= remaining            \* otherwise: "Reading straddled bits is unsupported"
           /\ IF endian = "<"
              THEN /\ vals' = Append(vals, SubSeq(buffer, 1, bits))                   \* v = buffer & mask
                   /\ buffer' = SubSeq(buffer, bits + 1, Len(buffer)) \o Zeros(bits)    \* buffer >>= bits
              ELSE /\ vals' = Append(vals, SubSeq(buffer, remaining - bits + 1, remaining))
                   /\ buffer' = buffer
           /\ remaining' = remaining - bits
        /\ i' = i + 1
        /\ UNCHANGED <<size, endian, ws, stream, phase, btype, rpos, out>>
\* ---- all fields read: the structure reader resets the buffer, the writer starts with a fresh one
StartWrite == /\ phase = "read" /\ i > Len(ws)
              /\ phase' = "write" /\ i' = 1 /\ btype' = 0 /\ buffer' = << >> /\ remaining' = 0
              /\ UNCHANGED <<size, endian, ws, stream, rpos, vals, out>>
\* ---- write(): new unit
OpenUnit == /\ phase = "write" /\ i <= Len(ws) /\ (remaining = 0 \/ btype # size)
            /\ btype' = size /\ remaining' = Total /\ buffer' = Zeros(Total)
            /\ UNCHANGED <<size, endian, ws, stream, phase, i, rpos, vals, out>>
\* ---- write(): or the value into place; "if self._remaining == 0: self.flush()"
Put == /\ phase = "write" /\ i <= Len(ws) /\ remaining # 0 /\ btype = size
       /\ LET bits == ws[i]
              lo == IF endian = "<" THEN Total - remaining ELSE remaining - bits      \* shift amount
              nb == [j \in 1..Total |-> IF j > lo /\ j <= lo + bits THEN Max2(buffer[j], vals[i][j - lo]) ELSE buffer[j]]
          IN IF remaining - bits = 0
             THEN /\ out' = out \o Endian(BitsToBytes(nb), M)      \* flush
                  /\ btype' = 0 /\ remaining' = 0 /\ buffer' = << >>
             ELSE /\ buffer' = nb /\ remaining' = remaining - bits /\ UNCHANGED <<out, btype>>
       /\ i' = i + 1
       /\ UNCHANGED <<size, endian, ws, stream, phase, rpos, vals>>
\* ---- end of the structure writer: "if bit_buffer._type is not None: bit_buffer.flush()"
Finish == /\ phase = "write" /\ i > Len(ws)
          /\ out' = IF btype # 0 THEN out \o Endian(BitsToBytes(buffer), M) ELSE out
          /\ phase' = "done" /\ btype' = 0 /\ remaining' = 0 /\ buffer' = << >>
          /\ UNCHANGED <<size, endian, ws, stream, i, rpos, vals>>
Next == Refill \/ Take \/ StartWrite \/ OpenUnit \/ Put \/ Finish
Spec == Init /\ [][Next]_vars

-----------------------------------------------------------------------------
\* the declarative rule
RECURSIVE Used(_, _, _)
Used(k, j, u) ==   \* bits of its unit assigned before field k
  IF j = k THEN (IF u = Total THEN 0 ELSE u) ELSE Used(k, j + 1, (IF u = Total THEN 0 ELSE u) + ws[j])
RECURSIVE UnitOf(_, _, _, _)
UnitOf(k, j, u, n) ==   \* index (0-based) of the unit holding field k
  IF j > k THEN n - 1
  ELSE IF u = 0 \/ u = Total THEN UnitOf(k, j + 1, ws[j], n + 1) ELSE UnitOf(k, j + 1, u + ws[j], n)
DeclBits(k) ==
  LET unit == BytesToBits(Endian(Slice(stream, size * UnitOf(k, 1, 0, 0), size), M))
      u == Used(k, 1, 0)
  IN IF endian = "<" THEN SubSeq(unit, u + 1, u + ws[k]) ELSE SubSeq(unit, Total - u - ws[k] + 1, Total - u)

TheStruct == [k |-> "struct", name |-> "B",
              fields |-> [j \in 1..Len(ws) |-> [name |-> ToString(j),
                                                type |-> [k |-> "int", name |-> "u", size |-> size, signed |-> FALSE, align |-> size],
                                                bits |-> ws[j], anon |-> FALSE]]]

ReadIsDeclarative == \A k \in 1..Len(vals) : vals[k] = DeclBits(k)
InRange == \A k \in 1..Len(vals) : Len(vals[k]) = ws[k]
ConsumesWholeUnits == phase # "read" => rpos = Len(stream)
WriteIsInverse == phase = "done" =>
   /\ Len(out) = Len(stream)
   /\ LET d == Decode(TheStruct, M, out, 0, << >>, << >>) IN
      d.ok /\ \A k \in 1..Len(ws) : d.v.vals[k] = IntVal(BitsToBytes(PadBits(vals[k])), FALSE)
\* the functional specification agrees with the machine, for reading and for writing
MachineIsCodec == phase = "done" =>
   LET d == Decode(TheStruct, M, stream, 0, << >>, << >>) IN
   /\ d.ok /\ d.pos = Len(stream)
   /\ \A k \in 1..Len(ws) : d.v.vals[k] = IntVal(BitsToBytes(PadBits(vals[k])), FALSE)
   /\ Enc(TheStruct, M, d.v, 0).b = out
\* bits no field owns are written as zero, owned bits are reproduced
Partition == phase = "done" =>
   LET e == Enc(TheStruct, M, Decode(TheStruct, M, stream, 0, << >>, << >>).v, 0) IN out = AndBytes(stream, e.k)
=============================================================================
