------------------------------ MODULE MC_Layout ------------------------------
(***************************************************************************)
(* The layout loop of the implementation (_calculate_size_and_offsets) as  *)
(* a state machine - variables offset, alignment, bits_type,               *)
(* bits_field_offset, bits_remaining, one Step per field - against the     *)
(* declarative C rule CLayout (C04, C06), including the class life cycle   *)
(* of C18: the field list grows by add_field and is re-laid-out at every   *)
(* commit, and fields keep the offset computed by an earlier commit        *)
(* ("if field.offset is not None: offset = field.offset").                 *)
(*                                                                         *)
(* A case = a structure of the bounded universe + a split of its field     *)
(* list into batches (every split is enumerated).  After every commit:     *)
(*   LoopIsCRule     offsets / size / alignment = CLayout(fields so far)   *)
(*   NoStaleOffset   no offset of an earlier commit contradicts the        *)
(*                   one-shot layout                                       *)
(* and AlignUp satisfies its arithmetic lemmas.                            *)
(***************************************************************************)
EXTENDS Layout, TLC, Json, IOUtils

Universe == ndJsonDeserialize(IOEnv.UNIVERSE_FILE)
None == -9            \* Python's None for offsets

VARIABLES case, cuts,           \* the case: cut positions of the batches (set of indices after which a commit happens)
          committed,             \* number of fields in the class so far
          stored,                \* stored[i] = field.offset kept on the Field object (None until computed)
          pc, i, offset, alignment, bits_type, bits_field_offset, bits_remaining,    \* the loop's variables
          snapshot               \* [size, align] written to the class by the last commit
vars == <<case, cuts, committed, stored, pc, i, offset, alignment, bits_type, bits_field_offset, bits_remaining, snapshot>>

T == Universe[case].type
M == Universe[case].mode
F(j) == T.fields[j]
NF == Len(T.fields)
Prefix(n) == [T EXCEPT !.fields = SubSeq(T.fields, 1, n)]

Init == /\ case \in {c \in 1..Len(Universe) : WellFormed(Universe[c].type, Universe[c].mode) /\ Len(Universe[c].type.fields) >= 1}
        /\ cuts \in SUBSET (1..(Len(Universe[case].type.fields) - 1))
        /\ committed = 0 /\ stored = [j \in 1..Len(Universe[case].type.fields) |-> None]
        /\ pc = "idle" /\ i = 0 /\ offset = 0 /\ alignment = 0 /\ bits_type = "" /\ bits_field_offset = 0 /\ bits_remaining = 0
        /\ snapshot = [size |-> 0, align |-> 0]

\* add_field ... commit(): the next batch of fields joins the class and the loop starts over all fields
NextCut == IF {c \in cuts : c > committed} = {} THEN NF ELSE SetMin({c \in cuts : c > committed})
Commit == /\ pc = "idle" /\ committed < NF
          /\ committed' = NextCut
          /\ pc' = "loop" /\ i' = 1 /\ offset' = 0 /\ alignment' = 0 /\ bits_type' = "" /\ bits_field_offset' = 0 /\ bits_remaining' = 0
          /\ UNCHANGED <<case, cuts, stored, snapshot>>

FieldAlign(f) == IF M.align THEN AlignOf(f.type, M) ELSE AlignOf(f.type, M)     \* Field.alignment = type alignment (used only when align)
\* one iteration of "for field in fields:"
Step == /\ pc = "loop" /\ i <= committed
        /\ LET f == F(i)
               st == Storage(f.type)
               o0 == IF stored[i] # None THEN stored[i] ELSE offset                               \* leading offset of an earlier commit
               continues == f.bits > 0 /\ stored[i] = None /\ bits_remaining > 0 /\ st.name = bits_type
               o1 == IF M.align /\ o0 # None /\ ~continues THEN AlignUp(o0, FieldAlign(f)) ELSE o0
               al == Max2(alignment, FieldAlign(f))
           IN /\ alignment' = al
              /\ IF f.bits > 0
                 THEN LET newunit == bits_remaining = 0 \/ st.name # bits_type
                                     \/ (bits_type # "" /\ o1 # None /\ bits_field_offset # None /\ o1 > bits_field_offset + st.size)
                      IN IF newunit
                         THEN /\ bits_type' = st.name /\ bits_remaining' = 8 * st.size - f.bits /\ bits_field_offset' = o1
                              /\ offset' = IF o1 # None THEN o1 + st.size ELSE None
                              /\ stored' = [stored EXCEPT ![i] = o1]
                         ELSE /\ bits_remaining' = bits_remaining - f.bits /\ offset' = o1
                              /\ UNCHANGED <<bits_type, bits_field_offset, stored>>
                 ELSE /\ bits_type' = "" /\ bits_field_offset' = 0 /\ bits_remaining' = 0
                      /\ stored' = [stored EXCEPT ![i] = o1]
                      /\ offset' = IF o1 = None THEN None ELSE IF SizeOf(f.type, M) = Dyn THEN None ELSE o1 + SizeOf(f.type, M)
        /\ i' = i + 1 /\ UNCHANGED <<case, cuts, committed, pc, snapshot>>
\* after the loop: tail padding, size and alignment are written to the class
Finish == /\ pc = "loop" /\ i > committed
          /\ snapshot' = [size |-> IF offset = None THEN None ELSE IF M.align THEN AlignUp(offset, Max2(alignment, 1)) ELSE offset, align |-> alignment]
          /\ pc' = "idle" /\ UNCHANGED <<case, cuts, committed, stored, i, offset, alignment, bits_type, bits_field_offset, bits_remaining>>
Next == Commit \/ Step \/ Finish
Spec == Init /\ [][Next]_vars

Norm(x) == IF x = None \/ x < 0 THEN Dyn ELSE x
LoopIsCRule ==
  pc = "idle" /\ committed > 0 =>
    LET lay == CLayout(Prefix(committed), M) IN
    /\ Norm(snapshot.size) = lay.size
    /\ Max2(snapshot.align, 1) = AlignOf(Prefix(committed), M)
    /\ \A j \in 1..committed : Norm(stored[j]) = (IF lay.offs[j] < 0 THEN Dyn ELSE lay.offs[j])
\* offsets stored by earlier commits already are the final ones (a later commit never has to move a field)
NoStaleOffset ==
  pc = "idle" /\ committed > 0 =>
    LET full == CLayout(T, M) IN \A j \in 1..committed : Norm(stored[j]) = (IF full.offs[j] < 0 THEN Dyn ELSE full.offs[j])
AlignLemmas == \A o \in 0..40 : \A al \in {1, 2, 4, 8, 16} :
                 /\ AlignUp(o, al) >= o /\ AlignUp(o, al) < o + al /\ (AlignUp(o, al) % al) = 0 /\ AlignUp(AlignUp(o, al), al) = AlignUp(o, al)
=============================================================================
