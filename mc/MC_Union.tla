------------------------------ MODULE MC_Union ------------------------------
(***************************************************************************)
(* C11 on the specification: for every union of the bounded universe       *)
(* (members from a small alphabet incl. nested and anonymous structures,   *)
(* arrays, bit-fields; packed / aligned; both byte orders) and every       *)
(* sequence of at most Depth member assignments with boundary values:      *)
(*   SizeIsLargest   size = largest member rounded up to the alignment     *)
(*   Visible         the assigned member reads back the assigned value     *)
(*   OthersKeep      every bit that is not a data bit of the written       *)
(*                   member's new encoding is unchanged                    *)
(*   DumpIsBuffer    Enc(union, views) = buffer on every bit that is data  *)
(*                   in some member (the Codec's union encoder and the     *)
(*                   buffer model agree)                                   *)
(* The known deviation (OverlayWhole) is checked to violate OthersKeep     *)
(* exactly when the written member has padding that is data elsewhere      *)
(* (negative control, MC_Union_dev.cfg).                                   *)
(***************************************************************************)
EXTENDS UnionOps, TLC, Json, IOUtils

CONSTANTS Depth, Whole
Universe == ndJsonDeserialize(IOEnv.UNIVERSE_FILE)    \* [type (a union), mode, consts, assigns: Seq([path, value])]

VARIABLES case, buf, prev, last, n
vars == <<case, buf, prev, last, n>>
U == Universe[case].type
Md == Universe[case].mode
Cs == Universe[case].consts
Size == SizeOf(U, Md)

Ramp(k) == [i \in 1..k |-> (i * 17 + 3) % 256]
Init == /\ case \in 1..Len(Universe)
        /\ buf \in {Ramp(SizeOf(Universe[case].type, Universe[case].mode)), [i \in 1..SizeOf(Universe[case].type, Universe[case].mode) |-> 255],
                    Zeros(SizeOf(Universe[case].type, Universe[case].mode))}
        /\ prev = buf /\ last = 0 /\ n = 0
Assign(a) == /\ n < Depth
             /\ LET as == Universe[case].assigns[a] IN
                buf' = AssignBuf(U, Md, buf, as.path, as.value, Cs, Whole)
             /\ prev' = buf /\ last' = a /\ n' = n + 1 /\ UNCHANGED case
Next == \E a \in 1..Len(Universe[case].assigns) : Assign(a)
Spec == Init /\ [][Next]_vars

MaxMember == LET S == {SizeOf(U.fields[j].type, Md) : j \in 1..Len(U.fields)} IN SetMax(S)
SizeIsLargest == Size = IF Md.align THEN AlignUp(MaxMember, AlignOf(U, Md)) ELSE MaxMember
AllViewsOk == ViewsOk(Views(U, Md, buf, Cs))
Visible == last # 0 =>
  LET as == Universe[case].assigns[last]
      j == as.path[1]
      RECURSIVE Get(_, _)
      Get(v, p) == IF Len(p) = 0 THEN v ELSE Get(v.vals[p[1]], Tail(p))
  IN Get(Decode(U.fields[j].type, Md, buf, 0, << >>, Cs).v, Tail(as.path)) = as.value
OthersKeep == last # 0 =>
  LET as == Universe[case].assigns[last]
      j == as.path[1]
      e == Enc(U.fields[j].type, Md, Decode(U.fields[j].type, Md, buf, 0, << >>, Cs).v, 0)
  IN \A i \in 1..Size : LET k == IF i <= Len(e.k) THEN e.k[i] ELSE 0 IN BAnd(buf[i], 255 - k) = BAnd(prev[i], 255 - k)
DumpIsBuffer ==
  LET uv == UnionValue(U, Views(U, Md, buf, Cs))
      e == Enc(U, Md, uv, 0)
  IN Len(e.b) = Size /\ e.b = AndBytes(buf, e.k)
=============================================================================
