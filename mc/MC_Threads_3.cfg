SPECIFICATION Spec
CONSTANT NThreads = 3
CONSTANT Shared = FALSE
INVARIANT Isolated
PROPERTY BenignShared
CHECK_DEADLOCK FALSE
