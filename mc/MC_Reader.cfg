SPECIFICATION Spec
CONSTANT AbsoluteAlign = FALSE
INVARIANT ReaderIsDecode
CHECK_DEADLOCK FALSE
