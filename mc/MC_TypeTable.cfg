SPECIFICATION Spec
CONSTANT NNames = 3
CONSTANT Depth = 4
INVARIANT ResolveIsMeaning
INVARIANT NeverBindsElsewhere
INVARIANT SameObject
INVARIANT Redeclare
INVARIANT Refused
CHECK_DEADLOCK FALSE
