------------------------------- MODULE MC_Cuts -------------------------------
(***************************************************************************)
(* C08 on the specification: for every case of the bounded universe, every *)
(* input pattern and EVERY cut point k of the input,                       *)
(*   - if Decode of the cut input succeeds without the `lax` flag, it is   *)
(*     exactly the value (and extent) of the complete input;               *)
(*   - a cut before the last byte of the extent of the complete parse      *)
(*     gives "eof" or a lax outcome, never a different value;              *)
(*   - with `lax` (partial trailing [EOF] element, cut in trailing         *)
(*     padding) the value is the complete value or, for [EOF] arrays,      *)
(*     a prefix-consistent one (the extent is the end of input).           *)
(* One state per (case, input, cut): Step walks the cut from the full      *)
(* length down to the start offset.                                        *)
(***************************************************************************)
EXTENDS Codec, TLC, Json, IOUtils

Universe == ndJsonDeserialize(IOEnv.UNIVERSE_FILE)
N == 28
Ramp(n)  == [i \in 1..n |-> i]
Const(n, c) == [i \in 1..n |-> c]
Small(n) == [i \in 1..n |-> (i * 7) % 4]
Inputs == {Ramp(N), Const(N, 255), Const(N, 0), Small(N)}

VARIABLES case, inp, cut, full, part
vars == <<case, inp, cut, full, part>>
T == Universe[case].type
M == Universe[case].mode
K == Universe[case].consts

Init == /\ case \in {c \in 1..Len(Universe) : WellFormed(Universe[c].type, Universe[c].mode)}
        /\ inp \in Inputs /\ cut = N
        /\ full = Decode(T, M, inp, 0, << >>, K) /\ part = full
Step == /\ cut > 0 /\ cut' = cut - 1
        /\ part' = Decode(T, M, SubSeq(inp, 1, cut - 1), 0, << >>, K)
        /\ UNCHANGED <<case, inp, full>>
Spec == Init /\ [][Step]_vars

\* what a successful parse of a shortened input may return
NoFabrication ==
  part.ok /\ ~HasEof(T) => full.ok /\ part.v = full.v /\ (("lax" \in part.fl) \/ part.pos = full.pos)
\* a cut strictly inside the data extent cannot succeed silently
CutIsNoticed ==
  full.ok /\ ~HasEof(T) /\ cut < full.pos /\ part.ok => "lax" \in part.fl
\* failures of a cut input are premature-end failures (or the decode error the full input has as well)
FailureIsEof == ~part.ok => part.err = "eof" \/ (~full.ok /\ part.err = full.err) \/ part.err \in {"decode", "eof-or-decode"}
=============================================================================
