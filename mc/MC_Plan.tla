------------------------------- MODULE MC_Plan -------------------------------
(***************************************************************************)
(* C03 on the specification: the compiled reader as PLAN + EXECUTOR.       *)
(*                                                                         *)
(* The source generator of compiler.py (_generate_fields, flush,           *)
(* align_to_field, _generate_struct_info) is a state machine here, with    *)
(* the generator's own variables: current_offset, current_block,           *)
(* prev_was_bits, prev_bits_type, bits_remaining, bits_rollover - one Step *)
(* per field.  It emits a plan, a sequence of operations                   *)
(*   Seek(off)      stream.seek(o + off)                                   *)
(*   Align(a)       stream.seek(-stream.tell() & (a - 1), SEEK_CUR)        *)
(*   Block(items)   one stream.read of the summed size, items = pads and   *)
(*                  fields sliced out of the buffer                        *)
(*   Bits(i)        bit_reader.read(type, bits)                            *)
(*   BitReset       bit_reader.reset()                                     *)
(*   Sub(i)         field type's own _read (nested struct, dynamic array)  *)
(*   TailAlign      alignment of the structure's end                       *)
(* ExecPlan runs a plan on an input.  For every compilable structure of    *)
(* the bounded universe, every input pattern and EVERY truncation of it:   *)
(*   PlanIsDecode   the executed plan and Decode agree on outcome, values, *)
(*                  recorded sizes of byte-occupying fields and position   *)
(* OldGen = TRUE selects the generator as it was before the fixes of       *)
(* findings F2 / F2b (no seek at the start of a block, dynamic fields      *)
(* merged into one block, stale bit-unit tracking): TLC must then produce  *)
(* a counter-example (negative control).                                   *)
(***************************************************************************)
EXTENDS PlanSpec, TLC, Json, IOUtils

CONSTANT OldGen
Universe == ndJsonDeserialize(IOEnv.UNIVERSE_FILE)
N == 26

Ramp(n)  == [k \in 1..n |-> k]
Const(n, c) == [k \in 1..n |-> c]
Inputs == {Ramp(N), Const(N, 255), Const(N, 0)}

Compilable(t, m) == t.k = "struct" /\ \A j \in 1..Len(t.fields) : t.fields[j].type.k # "leb"

VARIABLES case, i, gen, phase          \* gen: the generator's variables (cur, block, pwb, pbt, br) and the plan so far
vars == <<case, i, gen, phase>>
T == Universe[case].type
M == Universe[case].mode
K == Universe[case].consts

Init == /\ case \in {c \in 1..Len(Universe) : WellFormed(Universe[c].type, Universe[c].mode) /\ Compilable(Universe[c].type, Universe[c].mode)}
        /\ i = 1 /\ gen = GenInit /\ phase = "gen"
Step == /\ phase = "gen" /\ i <= Len(T.fields)
        /\ gen' = GenStep(T, M, gen, i, OldGen) /\ i' = i + 1 /\ UNCHANGED <<case, phase>>
Finish == /\ phase = "gen" /\ i > Len(T.fields)
          /\ gen' = [gen EXCEPT !.plan = GenFinish(T, M, gen), !.block = << >>] /\ phase' = "done" /\ UNCHANGED <<case, i>>
Next == Step \/ Finish
Spec == Init /\ [][Next]_vars

PlanIsDecode ==
  phase = "done" => \A inp \in Inputs : \A cut \in 0..N : Agree(T, M, K, gen.plan, SubSeq(inp, 1, cut), 0)
PlanIsDecodeAtOffset ==
  phase = "done" => Agree(T, M, K, gen.plan, Ramp(N + 5), 5)
\* the step machine and the folded function are the same generator
MachineIsFunction == phase = "done" => gen.plan = GenPlan(T, M, OldGen)
=============================================================================
