SPECIFICATION Spec
INVARIANT Fidelity
INVARIANT RoundTrip
INVARIANT SizeAgree
INVARIANT WindowOnly
INVARIANT InBounds
CHECK_DEADLOCK FALSE
