SPECIFICATION Spec
CONSTANT NameLimit = 1000
INVARIANT DecodeThenEncode
INVARIANT EncodeIsInverse
INVARIANT TwosComplement
INVARIANT ConsumesSize
INVARIANT LebMachineIsClosedForm
INVARIANT LebMinimal
CHECK_DEADLOCK FALSE
