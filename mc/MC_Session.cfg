SPECIFICATION Spec
CONSTANT Depth = 3
INVARIANT InitIsAssign
INVARIANT EqIsFieldwise
PROPERTY Independent
PROPERTY FreshIsZero
PROPERTY AssignLocal
CHECK_DEADLOCK FALSE
