SPECIFICATION Spec
CONSTANT AbsoluteAlign = TRUE
INVARIANT ReaderIsDecode
CHECK_DEADLOCK FALSE
