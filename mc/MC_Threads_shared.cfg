SPECIFICATION Spec
CONSTANT NThreads = 2
CONSTANT Shared = TRUE
INVARIANT Isolated
CHECK_DEADLOCK FALSE
