SPECIFICATION Spec
INVARIANT NoFabrication
INVARIANT CutIsNoticed
INVARIANT FailureIsEof
CHECK_DEADLOCK FALSE
