SPECIFICATION Spec
CONSTANT OldGen = FALSE
INVARIANT PlanIsDecode
INVARIANT PlanIsDecodeAtOffset
INVARIANT MachineIsFunction
CHECK_DEADLOCK FALSE
