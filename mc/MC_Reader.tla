------------------------------ MODULE MC_Reader ------------------------------
(***************************************************************************)
(* The INTERPRETED structure reader as a state machine, one step per field *)
(* with the variables of StructureMetaType._read and BitBuffer.read:       *)
(*   pos                 stream.tell()                                     *)
(*   vals, sizes         result, sizes                                     *)
(*   bt, brem, bbits     BitBuffer._type, ._remaining, the unit's bits     *)
(* Per field, in the order of the code:                                    *)
(*   1 seek to the field's static offset (if it has one and the stream is  *)
(*     not there)                                                          *)
(*   2 a field without static offset in aligned mode: align relative to    *)
(*     the structure's start - unless it continues the open bit unit       *)
(*   3 bit-field: BitBuffer.read (fetch a unit through the storage type's  *)
(*     own reader when none is open / it is used up / the type changes;    *)
(*     refuse a straddle; cut the bits)                                    *)
(*     other: reset the bit buffer, read the member, record its size       *)
(* and after the last field the tail alignment.  EOF anywhere ends the     *)
(* machine with an error.                                                  *)
(*                                                                         *)
(* ReaderIsDecode: for every structure of the bounded universe, every      *)
(* input pattern and EVERY truncation of it, the machine and the           *)
(* declarative Decode of module Codec agree on outcome, values, recorded   *)
(* sizes and position (C01/C03/C08/C09 for the interpreted reader; the     *)
(* generated reader's twin is MC_Plan, the writer's MC_Writer).            *)
(***************************************************************************)
EXTENDS Codec, TLC, Json, IOUtils

CONSTANT AbsoluteAlign         \* TRUE: the reader before the repair of F35 (alignment from the absolute stream position) - negative control
Universe == ndJsonDeserialize(IOEnv.UNIVERSE_FILE)
N == 26
Ramp(n)  == [k \in 1..n |-> k]
Const(n, c) == [k \in 1..n |-> c]
Patterns == {Ramp(N), Const(N, 255), Const(N, 0)}
Start == 3                                   \* the structure starts at an odd stream position

VARIABLES case, inp, pc, i, pos, vals, sizes, bt, brem, bbits, err
vars == <<case, inp, pc, i, pos, vals, sizes, bt, brem, bbits, err>>
T == Universe[case].type
M == Universe[case].mode
K == Universe[case].consts
Lay == CLayout(T, M)
OffOf(j) == IF Lay.offs[j] >= 0 THEN Lay.offs[j] ELSE -1          \* Field.offset, -1 = None

Init == /\ case \in {c \in 1..Len(Universe) : Universe[c].type.k = "struct" /\ WellFormed(Universe[c].type, Universe[c].mode)}
        /\ \E p \in Patterns, cut \in 0..N : inp = [k \in 1..Start |-> 200 + k] \o SubSeq(p, 1, cut)
        /\ pc = "field" /\ i = 1 /\ pos = Start /\ vals = << >> /\ sizes = << >> /\ bt = "" /\ brem = 0 /\ bbits = << >> /\ err = ""

Fail(e) == /\ pc' = "done" /\ err' = e /\ UNCHANGED <<case, inp, i, pos, vals, sizes, bt, brem, bbits>>

Step ==
  /\ pc = "field" /\ i <= Len(T.fields)
  /\ LET f == T.fields[i]
         isbits == f.bits > 0
         stg == IF isbits THEN Storage(f.type) ELSE [name |-> "", size |-> 0]
         \* 1: static offset
         p1 == IF OffOf(i) >= 0 /\ pos # Start + OffOf(i) THEN Start + OffOf(i) ELSE pos
         \* 2: alignment of a field without static offset, unless it continues the open unit
         continues == isbits /\ brem > 0 /\ bt = stg.name
         p2 == IF Aligned(T, M) /\ OffOf(i) < 0 /\ ~continues
               THEN (IF AbsoluteAlign THEN AlignUp(p1, AlignOf(f.type, M)) ELSE AlignRel(p1, Start, AlignOf(f.type, M))) ELSE p1
     IN IF isbits
        THEN \* BitBuffer.read(field_type, bits)
             LET fresh == brem < 1 \/ bt # stg.name
                 total == 8 * stg.size
                 eof == fresh /\ p2 + stg.size > Len(inp)
                 unit == IF fresh THEN BytesToBits(Endian(Slice(inp, p2, stg.size), M)) ELSE bbits
                 rem0 == IF fresh THEN total ELSE brem
                 lo == IF M.endian = "<" THEN total - rem0 ELSE rem0 - f.bits
                 mybits == SubSeq(unit, lo + 1, lo + f.bits)
                 raw == IntVal(BitsToBytes(PadBits(mybits)), FALSE)
                 val == IF f.type.k = "enum" THEN [k |-> "enum", cls |-> f.type.name, v |-> raw] ELSE raw
             IN IF eof THEN Fail("eof")
                ELSE IF f.bits > rem0 THEN Fail("straddle")
                ELSE /\ vals' = Append(vals, val) /\ sizes' = Append(sizes, -1)
                     /\ bt' = stg.name /\ brem' = rem0 - f.bits /\ bbits' = unit
                     /\ pos' = IF fresh THEN p2 + stg.size ELSE p2
                     /\ i' = i + 1 /\ UNCHANGED <<case, inp, pc, err>>
        ELSE LET r == Decode(f.type, M, inp, p2, CtxFields(T, vals), K) IN
             IF ~r.ok THEN Fail(r.err)
             ELSE /\ vals' = Append(vals, r.v) /\ sizes' = Append(sizes, r.pos - p2)
                  /\ bt' = "" /\ brem' = 0 /\ bbits' = << >>
                  /\ pos' = r.pos
                  /\ i' = i + 1 /\ UNCHANGED <<case, inp, pc, err>>

Finish ==
  /\ pc = "field" /\ i > Len(T.fields)
  /\ pos' = IF Aligned(T, M) THEN (IF AbsoluteAlign THEN AlignUp(pos, AlignOf(T, M)) ELSE AlignRel(pos, Start, AlignOf(T, M))) ELSE pos
  /\ pc' = "done" /\ UNCHANGED <<case, inp, i, vals, sizes, bt, brem, bbits, err>>

Next == Step \/ Finish
Spec == Init /\ [][Next]_vars

ReaderIsDecode ==
  pc = "done" =>
    LET d == Decode(T, M, inp, Start, << >>, K) IN
    IF err # "" THEN ~d.ok /\ (err = "straddle" \/ ErrMatches(IF err = "domain" THEN "domain" ELSE err, d.err) \/ d.err = err)
    ELSE /\ d.ok
         /\ d.v.vals = vals
         /\ d.pos = pos
         /\ \A j \in 1..Len(sizes) : sizes[j] = d.sizes[j] \/ (sizes[j] <= 0 /\ d.sizes[j] <= 0)
=============================================================================
