SPECIFICATION Spec
CONSTANT MaxOps = 1
CONSTANT Leaves = {"lit", "a", "K", "u", "sizeof"}
CONSTANT UnaryMarker = "-u"
CONSTANT Spacings = {FALSE, TRUE}
INVARIANT MachineIsC
INVARIANT NoError
INVARIANT GrammarIsTree
INVARIANT Repeatable
PROPERTY RewriteIdempotent
CHECK_DEADLOCK FALSE
