------------------------------ MODULE MC_Hexdump ------------------------------
(***************************************************************************)
(* The hex dump generator of utils.py as a state machine: variables        *)
(* i (line start), j (column), remaining / active (current palette entry), *)
(* pal (the palette, consumed from the front), values / chars (the line    *)
(* being built), out (finished lines); one action per iteration of the     *)
(* inner loop "for j in range(16)".  Checked for all data lengths 0..      *)
(* MaxLen, start offsets and palettes with entry lengths from PalLens      *)
(* (incl. empty entries and palettes shorter / longer than the data):      *)
(*   Lossless   the finished lines list every byte once, in order, 16 per  *)
(*              line with the right offset                                 *)
(*   Cosmetic   the lines are the same as without palette                  *)
(*   Balanced   colour is never left switched on at the end of a line      *)
(* and, separately, pack / unpack / swap are inverses on limb integers.    *)
(***************************************************************************)
EXTENDS Hexdump, TLC

CONSTANTS MaxLen, PalLens, MaxPal

Data(n) == [k \in 1..n |-> (k * 53 + 20) % 256]
Palettes == UNION {[1..m -> PalLens] : m \in 0..MaxPal}

VARIABLES n, start, usepal, pal, i, j, remaining, active, hex, ascii, colors, out, phase
vars == <<n, start, usepal, pal, i, j, remaining, active, hex, ascii, colors, out, phase>>
data == Data(n)

Init == /\ n \in 0..MaxLen /\ start \in {0, 256} /\ usepal \in BOOLEAN
        /\ pal \in (IF usepal THEN Palettes ELSE {<< >>})
        /\ i = 0 /\ j = 0 /\ remaining = 0 /\ active = FALSE /\ hex = << >> /\ ascii = << >> /\ colors = 0 /\ out = << >>
        /\ phase = IF n = 0 THEN "done" ELSE "cell"
\* "if not active and palette: remaining, active = palette.pop(); while remaining == 0: ..."
RECURSIVE SkipEmpty(_)
SkipEmpty(p) == IF Len(p) > 0 /\ p[1] = 0 THEN SkipEmpty(Tail(p)) ELSE p
Cell == /\ phase = "cell"
        /\ LET takes == ~active /\ Len(pal) > 0
               p2 == IF takes THEN SkipEmpty(pal) ELSE pal
               got == takes /\ Len(p2) > 0
               rem1 == IF got THEN p2[1] ELSE IF takes THEN 0 ELSE remaining
               act1 == IF got THEN TRUE ELSE IF takes THEN FALSE ELSE active
               pal1 == IF got THEN Tail(p2) ELSE p2
               c1 == colors + (IF takes \/ (active /\ j = 0) THEN 1 ELSE 0)          \* values += active
               inside == i + j < n
               rem2 == IF inside THEN rem1 - 1 ELSE rem1
               off == inside /\ rem2 = 0
           IN /\ hex' = IF inside THEN Append(hex, data[i + j + 1]) ELSE hex
              /\ ascii' = IF inside THEN Append(ascii, Shown(data[i + j + 1])) ELSE ascii
              /\ remaining' = rem2
              /\ active' = IF off THEN FALSE ELSE act1
              /\ colors' = c1 + (IF off /\ usepal THEN 1 ELSE 0) + (IF inside /\ j = 15 /\ usepal THEN 1 ELSE 0)
              /\ pal' = pal1
              /\ IF j = 15 THEN phase' = "line" /\ j' = j ELSE j' = j + 1 /\ phase' = phase
        /\ UNCHANGED <<n, start, usepal, i, out>>
\* "yield f'{prefix}{offset + i:08x}  {values:48s}  {chars}'"
Line == /\ phase = "line"
        /\ out' = Append(out, [offset |-> start + i, hex |-> hex, ascii |-> ascii, colors |-> colors])
        /\ hex' = << >> /\ ascii' = << >> /\ colors' = 0 /\ j' = 0 /\ i' = i + 16
        /\ phase' = IF i + 16 >= n THEN "done" ELSE "cell"
        /\ UNCHANGED <<n, start, usepal, pal, remaining, active>>
Next == Cell \/ Line
Spec == Init /\ [][Next]_vars

LosslessInv == phase = "done" => Lossless(data, start, out)
PrefixInv == \A k \in 1..Len(out) : out[k].hex = LineBytes(data, k) /\ out[k].offset = start + 16 * (k - 1)
NoColorWithoutPalette == ~usepal => \A k \in 1..Len(out) : out[k].colors = 0

\* ---- pack / unpack / swap (no state: checked in the initial states only)
Vals(w) == {FromInt(x) : x \in {0, 1, 127, 128, 255, 256, 65535}} \cup {IntVal([k \in 1..w |-> 255], FALSE), IntVal([k \in 1..w |-> IF k = w THEN 128 ELSE 0], FALSE),
                                                                     IntVal([k \in 1..w |-> 255], TRUE), IntVal([k \in 1..w |-> IF k = w THEN 128 ELSE 0], TRUE)}
PackUnpackInverse ==   \* evaluated once (ASSUME below)
  \A w \in {1, 2, 4, 8, 16} : \A e \in {"little", "big", "network", "<", ">", "!"} : \A v \in Vals(w) :
     FitsInt(v, w, v.neg) =>
        /\ UnpackVal(PackBytes(v, 8 * w, e), e, v.neg) = v
        /\ (~v.neg => SwapVal(SwapVal(v, 8 * w), 8 * w) = v)
        /\ PackBytes(v, 8 * w, "<") = Rev(PackBytes(v, 8 * w, ">"))
ASSUME PackUnpackInverse
=============================================================================
