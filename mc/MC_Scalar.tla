------------------------------ MODULE MC_Scalar ------------------------------
(***************************************************************************)
(* C05 on the specification: every built-in name, both byte orders, all    *)
(* byte strings over the boundary alphabet {00,01,7F,80,FF} (exhaustive up *)
(* to 4 bytes, patterns above):                                            *)
(*   decode o encode = id on values, encode o decode = id on canonical     *)
(*   inputs; the value is the two's complement / unsigned number of the    *)
(*   bytes (checked against an independent positional sum for <= 3 bytes); *)
(*   LEB128: the per-byte machine (shift, result) equals the closed form   *)
(*   and encoding is minimal; UTF-16 round trips with surrogates.          *)
(* History variable: the endianness can be switched between decode and     *)
(* encode (SetEndian) - the later call uses the byte order in force then.  *)
(***************************************************************************)
EXTENDS Codec, Builtins, TLC

Alphabet == {0, 1, 127, 128, 255}
LebAlphabet == {0, 1, 63, 64, 127, 128, 191, 192, 255}
SeqsN(S, n) == [1..n -> S]

CONSTANT NameLimit      \* how many rows of the built-in table are enumerated (all of them in the thorough tier)
VARIABLES name, endian, inp, phase, val, out
vars == <<name, endian, inp, phase, val, out>>
T == Builtin(name)
M == [endian |-> endian, align |-> FALSE, ptr |-> 8]

InputsFor(t) ==
  CASE t.k = "leb" -> UNION {SeqsN(LebAlphabet, n) : n \in 1..3}
    [] t.k = "void" -> {<< >>}
    [] OTHER -> LET sz == SizeOf(t, [endian |-> "<", align |-> FALSE, ptr |-> 8]) IN
                IF sz <= 4 THEN SeqsN(Alphabet, sz)
                ELSE {[i \in 1..sz |-> c] : c \in Alphabet} \cup {[i \in 1..sz |-> IF i = 1 THEN a ELSE IF i = sz THEN b ELSE 0] : a \in Alphabet, b \in Alphabet}
                     \cup {[i \in 1..sz |-> (i * 29) % 256]}

Init == /\ name \in {BuiltinTable[i][1] : i \in 1..Min2(NameLimit, Len(BuiltinTable))} /\ endian \in {"<", ">", "!"}
        /\ inp \in InputsFor(Builtin(name))
        /\ phase = "start" /\ val = ErrR("none") /\ out = << >>
Read  == phase = "start" /\ val' = Decode(T, M, inp, 0, << >>, << >>) /\ phase' = "read" /\ UNCHANGED <<name, endian, inp, out>>
\* the byte order may change between the read and the write: the write obeys the new one
SetEndian == phase = "read" /\ endian' \in {"<", ">"} /\ phase' = "switched" /\ UNCHANGED <<name, inp, val, out>>
Write == phase \in {"read", "switched"} /\ val.ok /\ out' = Encode(T, M, val.v) /\ phase' = "written" /\ UNCHANGED <<name, endian, inp, val>>
Next == Read \/ SetEndian \/ Write
Spec == Init /\ [][Next]_vars

\* independent meaning of small integers: positional sum
RECURSIVE Positional(_)
Positional(le) == IF Len(le) = 0 THEN 0 ELSE le[1] + 256 * Positional(Tail(le))
Pow256(n) == 256 ^ n

Canon == val.fl = {}
DecodeThenEncode == phase = "written" /\ Canon => Decode(T, M, out, 0, << >>, << >>).v = val.v /\ Decode(T, M, out, 0, << >>, << >>).pos = Len(out)
\* under the same byte order, the consumed bytes of a canonical input are reproduced exactly
EncodeIsInverse == phase = "read" /\ val.ok /\ Canon => Encode(T, M, val.v) = SubSeq(inp, 1, val.pos)
TwosComplement ==
  phase = "read" /\ T.k = "int" /\ T.size <= 3 /\ val.ok =>
    LET le == IF endian = "<" THEN inp ELSE Rev(inp)
        u == Positional(le)
        expected == IF T.signed /\ u >= Pow256(T.size) \div 2 THEN u - Pow256(T.size) ELSE u
    IN ToInt(val.v) = expected
ConsumesSize == phase = "read" /\ val.ok /\ SizeOf(T, M) # Dyn => val.pos = SizeOf(T, M)
\* LEB128: per-byte machine of the implementation (shift / result / sign extension) equals the closed form
RECURSIVE LebMachine(_, _, _, _)
LebMachine(bytes, k, shift, result) ==   \* result as a small TLC integer (inputs <= 3 bytes)
  IF k > Len(bytes) THEN [ok |-> FALSE, v |-> 0, last |-> 0, shift |-> shift]
  ELSE LET b == bytes[k]
           res == result + (b % 128) * (2 ^ shift)
       IN IF b >= 128 THEN LebMachine(bytes, k + 1, shift + 7, res) ELSE [ok |-> TRUE, v |-> res, last |-> b, shift |-> shift + 7]
LebMachineIsClosedForm ==
  phase = "read" /\ T.k = "leb" =>
    LET mres == LebMachine(inp, 1, 0, 0) IN
    /\ mres.ok = val.ok
    /\ (val.ok => ToInt(val.v) = IF T.signed /\ (mres.last \div 64) % 2 = 1 THEN mres.v - 2 ^ mres.shift ELSE mres.v)
LebMinimal == phase = "written" /\ T.k = "leb" => \A j \in 1..(Len(out) - 1) : out[j] >= 128
=============================================================================
