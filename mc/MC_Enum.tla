------------------------------ MODULE MC_Enum ------------------------------
(***************************************************************************)
(* C12 on the specification: the numbering loop of the definition parser   *)
(* as a state machine (variable nextval, one step per member; flag:        *)
(* nextval = 2 ** bit_length(val), enum: val + 1) against the declarative  *)
(* rule of EnumSpec, for ALL member lists of length <= MaxMembers whose    *)
(* value forms are drawn from: none, a literal, a duplicate of the         *)
(* previous value, expressions over earlier members.                       *)
(***************************************************************************)
EXTENDS EnumSpec, TLC

CONSTANT MaxMembers
Names == << <<65>>, <<66>>, <<67>>, <<68>>, <<69>> >>      \* A B C D E
\* value forms as texts; "P" stands for the previous member's name and is substituted per position
Forms == { << >>, <<48>>, <<49>>, <<51>>, <<53>>, <<48, 120, 49, 48>>,      \* none 0 1 3 5 0x10
           <<80>>, <<80, 43, 50>>, <<65, 60, 60, 50>>, <<65, 124, 56>> }     \* P  P+2  A<<2  A|8
Subst(text, i) == [j \in 1..Len(text) |-> IF text[j] = 80 THEN (IF i = 1 THEN 48 ELSE Names[i - 1][1]) ELSE text[j]]

VARIABLES flag, forms, i, nextval, values
vars == <<flag, forms, i, nextval, values>>
Decl == [flag |-> flag, members |-> [j \in 1..Len(forms) |-> [name |-> Names[j], text |-> Subst(forms[j], j)]]]

Init == /\ flag \in BOOLEAN /\ forms \in UNION {[1..n -> Forms] : n \in 1..MaxMembers}
        /\ i = 1 /\ nextval = (IF flag THEN 1 ELSE 0) /\ values = << >>
RECURSIVE BitLength(_)
BitLength(v) == IF v = 0 THEN 0 ELSE 1 + BitLength(v \div 2)
\* one iteration of "for v in line.split(','): ..."
Step == /\ i <= Len(forms)
        /\ LET text == Subst(forms[i], i)
               mm == Meaning(text, [ctx |-> values, consts |-> << >>, sizes |-> << >>])
               val == IF Len(text) = 0 THEN nextval ELSE mm.v
           IN /\ val # XX /\ val >= 0
              /\ values' = Append(values, <<Names[i], val>>)
              /\ nextval' = IF flag THEN 2 ^ BitLength(val) ELSE val + 1
        /\ i' = i + 1 /\ UNCHANGED <<flag, forms>>
Spec == Init /\ [][Step]_vars

\* the loop never disagrees with the declarative numbering on the members processed so far
LoopIsRule == LET ms == Members(Decl, << >>) IN \A j \in 1..Len(values) : values[j] = ms[j]
\* flags: an automatic value is a power of two above everything automatic before it
AutoFlagIsPow2 == flag => \A j \in 1..Len(values) : Len(Subst(forms[j], j)) = 0 => \E e \in 0..24 : values[j][2] = 2 ^ e
=============================================================================
