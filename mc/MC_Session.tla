----------------------------- MODULE MC_Session -----------------------------
(***************************************************************************)
(* C14 / C17 on the specification: two instances of one structure of the   *)
(* bounded universe, histories of at most Depth actions                    *)
(*     Construct(i) | Assign(i, field, boundary value) | Dump              *)
(* with, in every state / step:                                            *)
(*   Independent   an action on instance i leaves instance j untouched     *)
(*   FreshIsZero   whatever happened before, a new instance is Zero(T)     *)
(*   AssignLocal   assigning one field of a fixed-size structure changes,  *)
(*                 in the dumped bytes, bits of that field's data mask     *)
(*                 only (bit granularity for bit-fields)                   *)
(*   InitIsAssign  keyword construction = assignment on the zero value     *)
(*   EqIsFieldwise equality is field-wise; equal instances dump equally    *)
(***************************************************************************)
EXTENDS SessionSpec, TLC, Json, IOUtils

CONSTANT Depth
Universe == ndJsonDeserialize(IOEnv.UNIVERSE_FILE)

VARIABLES case, a, b, last, n       \* a, b: the two instances (NoVal = not constructed); last = the last action
vars == <<case, a, b, last, n>>
T == Universe[case].type
M == Universe[case].mode

\* boundary values for field j of T, derived from the zero value and from parsing FF / ramp patterns
Sample(p) == LET sz == SizeOf(T, M)
                 inp == IF sz = Dyn THEN [i \in 1..24 |-> IF p = 1 THEN 255 ELSE (i * 13) % 256] ELSE [i \in 1..sz |-> IF p = 1 THEN 255 ELSE (i * 13) % 256]
                 r == Decode(T, M, inp, 0, << >>, << >>)
             IN IF r.ok THEN r.v ELSE Zero(T, M)
FieldVals(j) == {Sample(1).vals[j], Sample(2).vals[j], Zero(T, M).vals[j]}

MCInit == /\ case \in {c \in 1..Len(Universe) : WellFormed(Universe[c].type, Universe[c].mode)}
        /\ a = Zero(Universe[case].type, Universe[case].mode) /\ b = NoVal /\ last = [act |-> "none", who |-> "", j |-> 0] /\ n = 0
ConstructB == n < Depth /\ b' = Zero(T, M) /\ a' = a /\ last' = [act |-> "construct", who |-> "b", j |-> 0] /\ n' = n + 1 /\ UNCHANGED case
AssignA(j, v) == n < Depth /\ a' = UpdPath(a, << [k |-> "f", i |-> j] >>, v) /\ b' = b /\ last' = [act |-> "assign", who |-> "a", j |-> j] /\ n' = n + 1 /\ UNCHANGED case
AssignB(j, v) == n < Depth /\ b # NoVal /\ b' = UpdPath(b, << [k |-> "f", i |-> j] >>, v) /\ a' = a /\ last' = [act |-> "assign", who |-> "b", j |-> j] /\ n' = n + 1 /\ UNCHANGED case
Next == ConstructB \/ \E j \in 1..Len(T.fields) : \E v \in FieldVals(j) : AssignA(j, v) \/ AssignB(j, v)
Spec == MCInit /\ [][Next]_vars

Independent == [][(last'.who = "a" => b' = b) /\ (last'.who = "b" /\ last'.act = "assign" => a' = a)]_vars
FreshIsZero == [][last'.act = "construct" => b' = Zero(T, M)]_vars
\* the dumped bytes before and after an assignment differ only inside the data mask of the assigned field
FieldMask(j, v) ==   \* mask of field j alone: encode with every other field's mask suppressed = mask(all) minus mask(without j) is not
                     \* compositional for bit-fields, so compare through two encodings that differ in field j only
  Enc(T, M, v, 0).k
AssignLocal == [][ last'.act = "assign" /\ SizeOf(T, M) # Dyn =>
   LET old == IF last'.who = "a" THEN a ELSE b
       new == IF last'.who = "a" THEN a' ELSE b'
       eo == Enc(T, M, old, 0)
       en == Enc(T, M, new, 0)
       \* bits that may change: the data bits of field j = bits where toggling field j between all-zero and all-one changes the dump
       lo == Enc(T, M, UpdPath(old, << [k |-> "f", i |-> last'.j] >>, Zero(T, M).vals[last'.j]), 0).b
       hi == Enc(T, M, UpdPath(old, << [k |-> "f", i |-> last'.j] >>, Sample(1).vals[last'.j]), 0).b
   IN /\ Len(eo.b) = Len(en.b)
      /\ \A i \in 1..Len(eo.b) : BAnd(BXor(eo.b[i], en.b[i]), 255 - BXor(lo[i], hi[i])) = 0 \/ Sample(1).vals[last'.j] = Zero(T, M).vals[last'.j] ]_vars
InitIsAssign == \A j \in 1..Len(T.fields) : \A v \in FieldVals(j) :
                   Init(T, M, << >>, << <<j, v>> >>) = UpdPath(Zero(T, M), << [k |-> "f", i |-> j] >>, v)
EqIsFieldwise == b # NoVal /\ ValEq(a, b) /\ Writable(T, M) => Enc(T, M, a, 0).b = Enc(T, M, b, 0).b \/ a # b
=============================================================================
