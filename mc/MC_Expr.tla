------------------------------- MODULE MC_Expr -------------------------------
(***************************************************************************)
(* C10 on the specification.                                               *)
(*                                                                         *)
(* Universe: every expression tree with at most MaxOps operators over the  *)
(* full operator set (10 binary, 2 unary), leaves = literals, a field, a   *)
(* constant, an identifier called u, sizeof(t); each tree is rendered to   *)
(* TEXT with minimal or with redundant parentheses and tight or loose      *)
(* spacing.  For every text TLC runs, step by step, the evaluator of       *)
(* expression.py as a state machine (token rewrite of unary '-', the       *)
(* shunting-yard loop with one action per branch, evaluate_exp, the final  *)
(* drain) and checks                                                       *)
(*   MachineIsC        result = value of the tree (C semantics) whenever   *)
(*                     that value is inside the guarded domain             *)
(*   GrammarIsTree     the C grammar of module ExprGrammar gives the text  *)
(*                     the same value (lexer + parser are consistent with  *)
(*                     the renderer: the oracle used on recorded traces)   *)
(*   Repeatable        a second evaluation on the same object (rewritten   *)
(*                     tokens, fresh stacks) with another context gives    *)
(*                     what a fresh object gives                           *)
(* The machine never gets stuck on a well-formed text (NoError).           *)
(***************************************************************************)
EXTENDS ExprGrammar, TLC

CONSTANTS MaxOps, Leaves, UnaryMarker, Spacings

BinOps == {"|", "^", "&", "<<", ">>", "+", "-", "*", "/", "%"}
UnOps == {"-", "~"}
Prec(o) == CASE o = "|" -> 0 [] o = "^" -> 1 [] o = "&" -> 2 [] o \in {"<<", ">>"} -> 3
             [] o \in {"+", "-"} -> 4 [] o \in {"*", "/", "%"} -> 5 [] OTHER -> 6

LeafSet == {[k |-> "lit", n |-> 1], [k |-> "lit", n |-> 2], [k |-> "lit", n |-> 3],
            [k |-> "id", name |-> "a"], [k |-> "id", name |-> "K"], [k |-> "id", name |-> "u"],
            [k |-> "sizeof", size |-> 2], [k |-> "sizeof", size |-> 4]}
RECURSIVE Trees(_)
Trees(n) ==
  IF n = 0 THEN {l \in LeafSet : (IF l.k = "lit" THEN "lit" ELSE IF l.k = "id" THEN l.name ELSE "sizeof") \in Leaves}
  ELSE UNION { {[k |-> "bin", o |-> o, l |-> l, r |-> r] : o \in BinOps, l \in Trees(j), r \in Trees(n - 1 - j)} : j \in 0..(n-1) }
       \cup {[k |-> "un", o |-> o, e |-> e] : o \in UnOps, e \in Trees(n - 1)}
AllTrees == UNION {Trees(n) : n \in 0..MaxOps}

\* contexts: the field a, the constant K, and u as a field (first evaluation) or as a constant only (second evaluation)
Ctx1 == [a |-> 5, u |-> 3]
Ctx2 == [a |-> 1]
Consts == [K |-> 2, u |-> 7, a |-> 100]      \* a is shadowed by the field in both contexts
FieldCtx(c) == [nm \in DOMAIN c |-> FromInt(c[nm])]

\* ---- rendering to text (character codes)
Chr(s) == CASE s = "|" -> <<124>> [] s = "^" -> <<94>> [] s = "&" -> <<38>> [] s = "<<" -> <<60, 60>> [] s = ">>" -> <<62, 62>>
            [] s = "+" -> <<43>> [] s = "-" -> <<45>> [] s = "*" -> <<42>> [] s = "/" -> <<47>> [] s = "%" -> <<37>>
            [] s = "~" -> <<126>> [] s = "(" -> <<40>> [] s = ")" -> <<41>> [] s = " " -> <<32>>
            [] s = "a" -> <<97>> [] s = "K" -> <<75>> [] s = "u" -> <<117>>
            [] s = "sizeof(uint16)" -> <<115, 105, 122, 101, 111, 102, 40, 117, 105, 110, 116, 49, 54, 41>>
            [] s = "sizeof(unsigned int)" -> <<115, 105, 122, 101, 111, 102, 40, 117, 110, 115, 105, 103, 110, 101, 100, 32, 105, 110, 116, 41>>
Digit(n) == <<48 + n>>
RECURSIVE Render(_, _, _, _)
Render(t, ctx, redundant, sp) ==
  IF t.k = "lit" THEN Digit(t.n)
  ELSE IF t.k = "id" THEN Chr(t.name)
  ELSE IF t.k = "sizeof" THEN (IF t.size = 2 THEN Chr("sizeof(uint16)") ELSE Chr("sizeof(unsigned int)"))
  ELSE IF t.k = "un" THEN Chr(t.o) \o Render(t.e, 6, redundant, sp)
  ELSE LET p == Prec(t.o)
           gap == IF sp THEN Chr(" ") ELSE << >>
           body == Render(t.l, p, redundant, sp) \o gap \o Chr(t.o) \o gap \o Render(t.r, p + 1, redundant, sp)
       IN IF p < ctx \/ (redundant /\ ctx > 0) THEN Chr("(") \o body \o Chr(")") ELSE body

EnvCtx(c) == IF c = Ctx1 THEN << <<Chr("a"), 5>>, <<Chr("u"), 3>> >> ELSE << <<Chr("a"), 1>> >>
Env(c) == [ctx |-> EnvCtx(c),
           consts |-> << <<Chr("K"), 2>>, <<Chr("u"), 7>>, <<Chr("a"), 100>> >>,
           sizes |-> << <<<<117, 105, 110, 116, 49, 54>>, 2>>, <<<<117, 110, 115, 105, 103, 110, 101, 100, 32, 105, 110, 116>>, 4>> >>]

-----------------------------------------------------------------------------
\* the implementation as a machine.  Tokens are the grammar's tokens; the rewrite turns O("-") into O(UnaryMarker).
VARIABLES tree, redundant, sp,        \* the case
          toks,                        \* Expression.tokens (shared by all evaluations of the object, rewritten in place)
          run,                         \* 1 = first evaluate(Ctx1), 2 = second evaluate(Ctx2) on the same object
          pc, i, stack, queue, res1, res2
vars == <<tree, redundant, sp, toks, run, pc, i, stack, queue, res1, res2>>

Text == Render(tree, 0, redundant, sp)
CtxOfRun == IF run = 1 THEN Ctx1 ELSE Ctx2
IsUnaryTok(k) == k.t = "o" /\ k.s \in {UnaryMarker, "~"}
IsOperatorTok(k) == (k.t = "o" /\ k.s \in BinOps \cup {UnaryMarker, "~"})
                    \/ (k.t = "i" /\ UnaryMarker = "u" /\ k.s = Chr("u"))     \* the marker "u" is also an identifier (finding F8)
MPrec(s) == IF s \in {UnaryMarker, "~", "sizeof"} THEN 6 ELSE Prec(s)
Top(s) == s[Len(s)]
Pop(s) == SubSeq(s, 1, Len(s) - 1)
NoRes == [k |-> "none", v |-> 0]

Init == /\ tree \in AllTrees /\ redundant \in BOOLEAN /\ sp \in Spacings
        /\ toks = Lex(Render(tree, 0, redundant, sp), 1, << >>).toks
        /\ run = 1 /\ pc = "rewrite" /\ i = 1 /\ stack = << >> /\ queue = << >> /\ res1 = NoRes /\ res2 = NoRes

\* "for i in range(len(self.tokens)): if self.tokens[i] == '-': ..."   (one step per token)
Rewrite == /\ pc = "rewrite"
           /\ IF i > Len(toks) THEN pc' = "scan" /\ i' = 1 /\ UNCHANGED toks
              ELSE /\ toks' = IF toks[i].t = "o" /\ toks[i].s = "-"
                                 /\ (i = 1 \/ IsOperatorTok(toks[i - 1]) \/ (toks[i - 1].t = "o" /\ toks[i - 1].s \in {UnaryMarker, "("}))
                              THEN [toks EXCEPT ![i] = TokO(UnaryMarker)] ELSE toks
                   /\ i' = i + 1 /\ UNCHANGED pc
           /\ UNCHANGED <<tree, redundant, sp, run, stack, queue, res1, res2>>

Finish(r) == IF run = 1 THEN /\ res1' = r /\ run' = 2 /\ pc' = "rewrite" /\ i' = 1 /\ stack' = << >> /\ queue' = << >> /\ UNCHANGED res2
             ELSE /\ res2' = r /\ pc' = "done" /\ UNCHANGED <<run, i, stack, queue, res1>>
Fail == Finish([k |-> "error", v |-> 0])

\* evaluate_exp()
Reduce(st, q) ==
  LET o == Top(st) IN
  IF Len(q) < 1 THEN [ok |-> FALSE, st |-> st, q |-> q]
  ELSE IF o \in {UnaryMarker, "~"}
  THEN [ok |-> TRUE, st |-> Pop(st), q |-> Append(Pop(q), IF Top(q) = XX THEN XX ELSE ApplyUn(IF o = "~" THEN "~" ELSE "-", Top(q)))]
  ELSE IF Len(q) < 2 THEN [ok |-> FALSE, st |-> st, q |-> q]
  ELSE [ok |-> TRUE, st |-> Pop(st), q |-> Append(Pop(Pop(q)), BinVal(o, q[Len(q) - 1], q[Len(q)]))]

IdentVal(name) ==      \* "elif current_token in context ... elif current_token in self.cstruct.consts"
  LET nm == CHOOSE x \in {"a", "K", "u"} : Chr(x) = name IN
  IF nm \in DOMAIN CtxOfRun THEN CtxOfRun[nm] ELSE Consts[nm]

Scan == /\ pc = "scan"
        /\ IF i > Len(toks) THEN pc' = "drain" /\ UNCHANGED <<i, stack, queue, res1, res2, run>>
           ELSE LET k == toks[i] IN
                CASE k.t = "n" -> queue' = Append(queue, k.v) /\ i' = i + 1 /\ UNCHANGED <<pc, stack, res1, res2, run>>
                  [] k.t = "i" -> queue' = Append(queue, IdentVal(k.s)) /\ i' = i + 1 /\ UNCHANGED <<pc, stack, res1, res2, run>>
                  [] IsUnaryTok(k) -> stack' = Append(stack, k.s) /\ i' = i + 1 /\ UNCHANGED <<pc, queue, res1, res2, run>>
                  \* "end = index of the next ')'; the tokens between '(' and it are the words of the type name"
                  [] k.t = "o" /\ k.s = "sizeof" ->
                       LET E == {j \in i..Len(toks) : toks[j].t = "o" /\ toks[j].s = ")"}
                           end == IF E = {} THEN 0 ELSE SetMin(E)
                       IN IF end < i + 3 \/ ~IsOp(toks, i + 1, {"("}) \/ (\E j \in (i + 2)..(end - 1) : toks[j].t # "i")
                          THEN Fail /\ UNCHANGED <<>>
                          ELSE /\ queue' = Append(queue, Lookup(Env(Ctx1).sizes, JoinWords(toks, i + 2, end - 1)))
                               /\ i' = end + 1 /\ UNCHANGED <<pc, stack, res1, res2, run>>
                  [] k.t = "o" /\ k.s \in BinOps -> pc' = "popwhile" /\ UNCHANGED <<i, stack, queue, res1, res2, run>>
                  [] k.t = "o" /\ k.s = "(" -> stack' = Append(stack, "(") /\ i' = i + 1 /\ UNCHANGED <<pc, queue, res1, res2, run>>
                  [] k.t = "o" /\ k.s = ")" -> IF Len(stack) = 0 THEN Fail /\ UNCHANGED <<>> ELSE pc' = "close" /\ UNCHANGED <<i, stack, queue, res1, res2, run>>
        /\ UNCHANGED <<tree, redundant, sp, toks>>
\* "while len(stack) != 0 and stack[-1] != '(' and precedence(stack[-1], current): evaluate_exp()" ; then push
PopWhile == /\ pc = "popwhile"
            /\ IF Len(stack) # 0 /\ Top(stack) # "(" /\ MPrec(Top(stack)) >= MPrec(toks[i].s)
               THEN LET r == Reduce(stack, queue) IN
                    IF r.ok THEN stack' = r.st /\ queue' = r.q /\ UNCHANGED <<pc, i, res1, res2, run>> ELSE Fail
               ELSE stack' = Append(stack, toks[i].s) /\ pc' = "scan" /\ i' = i + 1 /\ UNCHANGED <<queue, res1, res2, run>>
            /\ UNCHANGED <<tree, redundant, sp, toks>>
\* "while stack[-1] != '(': evaluate_exp()" ; pop the parenthesis
Close == /\ pc = "close"
         /\ IF Len(stack) = 0 THEN Fail
            ELSE IF Top(stack) # "(" THEN LET r == Reduce(stack, queue) IN
                 IF r.ok THEN stack' = r.st /\ queue' = r.q /\ UNCHANGED <<pc, i, res1, res2, run>> ELSE Fail
            ELSE stack' = Pop(stack) /\ pc' = "scan" /\ i' = i + 1 /\ UNCHANGED <<queue, res1, res2, run>>
         /\ UNCHANGED <<tree, redundant, sp, toks>>
\* "while len(stack) != 0: ... evaluate_exp()" ; "if len(queue) != 1: raise" ; return queue[0]
Drain == /\ pc = "drain"
         /\ IF Len(stack) # 0
            THEN IF Top(stack) = "(" THEN Fail
                 ELSE LET r == Reduce(stack, queue) IN
                      IF r.ok THEN stack' = r.st /\ queue' = r.q /\ UNCHANGED <<pc, i, res1, res2, run>> ELSE Fail
            ELSE IF Len(queue) # 1 THEN Fail ELSE Finish([k |-> "ok", v |-> queue[1]])
         /\ UNCHANGED <<tree, redundant, sp, toks>>
Next == Rewrite \/ Scan \/ PopWhile \/ Close \/ Drain
Spec == Init /\ [][Next]_vars

-----------------------------------------------------------------------------
TreeVal(c) == EvalAst(tree, FieldCtx(c), Consts)
MachineIsC == /\ (res1.k # "none" /\ TreeVal(Ctx1) # XX => res1 = [k |-> "ok", v |-> TreeVal(Ctx1)])
              /\ (res2.k # "none" /\ TreeVal(Ctx2) # XX => res2 = [k |-> "ok", v |-> TreeVal(Ctx2)])
NoError == res1.k # "error" /\ res2.k # "error"
GrammarIsTree == pc = "rewrite" /\ run = 1 /\ i = 1 =>
                   /\ Meaning(Text, Env(Ctx1)) = [wf |-> TRUE, v |-> TreeVal(Ctx1)]
                   /\ Meaning(Text, Env(Ctx2)) = [wf |-> TRUE, v |-> TreeVal(Ctx2)]
\* the second evaluation starts from the rewritten token list of the first one and must not be influenced by it
Repeatable == pc = "done" /\ TreeVal(Ctx2) # XX => res2.v = TreeVal(Ctx2)
\* the only state that survives an evaluation is the (idempotent) token rewrite
RewriteIdempotent == [][pc = "rewrite" /\ run = 2 => toks' = toks]_vars
=============================================================================
