SPECIFICATION GSpec
CONSTANT Depth = 6
CONSTANT Whole = FALSE
CHECK_DEADLOCK FALSE
