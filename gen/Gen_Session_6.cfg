SPECIFICATION GSpec
CONSTANT Depth = 6
CONSTANT MaxInst = 3
INVARIANT Emit
PROPERTY FrameOk
CHECK_DEADLOCK FALSE
