----------------------------- MODULE Gen_Session -----------------------------
(***************************************************************************)
(* Behaviour generator for C14 / C17 (spec -> code direction).             *)
(* State: up to MaxInst live instances of ONE structure of the universe.   *)
(* TLC chooses the history (-simulate):                                    *)
(*   Construct(c)    a new instance from the c-th candidate argument list  *)
(*                   (positional / keyword / None arguments)               *)
(*   Assign(i, a)    the a-th candidate assignment (path, value) on        *)
(*                   instance i, when the path exists in its value         *)
(*   Grow(i, a)      the a-th candidate element is appended to a dynamic   *)
(*                   array member of instance i                            *)
(*   Alias(i)        NOT an action: nothing in the API makes two instances *)
(*                   share state, so every instance is changed by its own  *)
(*                   Assign only (C14)                                     *)
(* and after every step records what the API must show for EVERY live      *)
(* instance: value, dumped bytes, truthiness, and equality of every pair.  *)
(* At the end of a behaviour the log is written as JSON; the harness       *)
(* performs the same calls on real objects and compares after each step.   *)
(***************************************************************************)
EXTENDS SessionSpec, TLC, Json, IOUtils

CONSTANTS Depth, MaxInst
Universe == ndJsonDeserialize(IOEnv.UNIVERSE_FILE)

VARIABLES case, inst, log, n
vars == <<case, inst, log, n>>
T == Universe[case].type
M == Universe[case].mode
Ctors == Universe[case].ctors          \* sequence of [args, kwargs]
Assigns == Universe[case].assigns      \* sequence of [path, value]

RECURSIVE PathOk(_, _)
PathOk(v, path) ==
  IF Len(path) = 0 THEN TRUE
  ELSE IF path[1].k = "f" THEN v.k = "struct" /\ path[1].i <= Len(v.vals) /\ PathOk(v.vals[path[1].i], Tail(path))
  ELSE v.k = "list" /\ path[1].i <= Len(v.items) /\ PathOk(v.items[path[1].i], Tail(path))

NoDump == << -1 >>
Obs(s) == [vals  |-> s,
           dumps |-> [j \in 1..Len(s) |-> IF Writable(T, M) /\ Fits(T, M, s[j]) THEN Enc(T, M, s[j], 0).b ELSE NoDump],
           bool  |-> [j \in 1..Len(s) |-> Bool(s[j])],
           eq    |-> [i \in 1..Len(s) |-> [j \in 1..Len(s) |-> ValEq(s[i], s[j])]]]

GInit == /\ case \in 1..Len(Universe)
         /\ inst = << >> /\ log = << >> /\ n = 0

Construct(c) ==
  /\ n < Depth /\ Len(inst) < MaxInst
  /\ inst' = Append(inst, Init(T, M, Ctors[c].args, Ctors[c].kwargs))
  /\ log' = Append(log, [act |-> "construct", c |-> c, i |-> Len(inst) + 1, obs |-> Obs(inst')])
  /\ n' = n + 1 /\ UNCHANGED case

Assign(i, a) ==
  /\ n < Depth /\ i \in 1..Len(inst)
  /\ PathOk(inst[i], Assigns[a].path)
  /\ inst' = [inst EXCEPT ![i] = UpdPath(@, Assigns[a].path, Assigns[a].value)]
  /\ log' = Append(log, [act |-> "assign", c |-> a, i |-> i, obs |-> Obs(inst')])
  /\ n' = n + 1 /\ UNCHANGED case

\* an array member without a fixed number of entries grows in place (list.append on the real object)
Grows == Universe[case].grows          \* sequence of [j, value]
Grow(i, a) ==
  /\ n < Depth /\ i \in 1..Len(inst)
  /\ inst[i].vals[Grows[a].j].k = "list"
  /\ inst' = [inst EXCEPT ![i].vals[Grows[a].j].items = Append(@, Grows[a].value)]
  /\ log' = Append(log, [act |-> "grow", c |-> a, i |-> i, obs |-> Obs(inst')])
  /\ n' = n + 1 /\ UNCHANGED case

GNext == \/ \E c \in 1..Len(Ctors) : Construct(c)
         \/ \E i \in 1..MaxInst, a \in 1..Len(Assigns) : Assign(i, a)
         \/ \E i \in 1..MaxInst, a \in 1..Len(Grows) : Grow(i, a)
GSpec == GInit /\ [][GNext]_vars

\* the specification's own frame condition, checked on every generated step: an action changes its target only
FrameOk == [][\A j \in 1..Len(inst) : (log'[Len(log')].act = "construct" \/ log'[Len(log')].i # j) => inst'[j] = inst[j]]_vars

\* one line of JSON per finished behaviour
Emit == n = Depth => PrintT(ToJson([beh |-> "BEH", case |-> case, log |-> log]))
=============================================================================
