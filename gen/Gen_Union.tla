------------------------------ MODULE Gen_Union ------------------------------
(***************************************************************************)
(* Behaviour generator for C11 (spec -> code direction): the union model   *)
(* of MC_Union plus a history variable `alt` (the buffer the known         *)
(* deviation F27 would produce for the last step), run with                *)
(* `tlc -simulate file=...`: every behaviour is written to a file, one     *)
(* state per assignment (case, n, last = index of the assignment, buf).    *)
(* The harness replays each behaviour on a real union object and compares  *)
(* the real buffer with buf after every step.                              *)
(***************************************************************************)
EXTENDS MC_Union
VARIABLE alt
GInit == Init /\ alt = << >>
GNext == \E a \in 1..Len(Universe[case].assigns) :
           /\ Assign(a)
           /\ alt' = AssignBuf(U, Md, buf, Universe[case].assigns[a].path, Universe[case].assigns[a].value, Cs, TRUE)
GSpec == GInit /\ [][GNext]_<<vars, alt>>
=============================================================================
