SPECIFICATION GSpec
CONSTANT Depth = 10
CONSTANT MaxInst = 3
INVARIANT Emit
PROPERTY FrameOk
CHECK_DEADLOCK FALSE
