----------------------------- MODULE DefGrammar -----------------------------
(***************************************************************************)
(* The definition language of cstruct as a grammar over TEXT (C13): what a *)
(* definition text MEANS, independent of parser.py.                        *)
(*                                                                         *)
(*   text      := { define | typedef | composite | enum } *                *)
(*   define    := '#define' NAME expression-to-end-of-line                 *)
(*   typedef   := 'typedef' ( composite-head names | TYPE declarator ) ';' *)
(*   composite := ('struct'|'union') [NAME] '{' field* '}' [names] ';'     *)
(*   field     := TYPE declarator [':' bits] ';'                           *)
(*              | ('struct'|'union') '{' field* '}' [declarator] ';'       *)
(*   declarator:= '*'* NAME { '[' count ']' }                              *)
(*   enum      := ('enum'|'flag') NAME [':' TYPE] '{' member,* '}' ';'     *)
(*   TYPE      := one or more words naming a type (unsigned long)          *)
(*   count     := empty (null terminated) | 'EOF' | expression             *)
(*                                                                         *)
(* White space (blank, tab, CR, LF) and comments (block, line) separate    *)
(* tokens and mean nothing else - except that '#define' owns its line and  *)
(* a count is taken as written between its brackets.                       *)
(*                                                                         *)
(* Meaning: a list of declarations in the form Trace_Parser folds into the *)
(* name table (kind type / alias / aliasarr / aliasptr / typedecl, canonical*)
(* abstract types), plus the constants.  Texts are TLA+ strings (TLC       *)
(* implements Len, SubSeq and \o on them), so names come out as strings.   *)
(* A text outside this grammar yields ok = FALSE.                          *)
(***************************************************************************)
EXTENDS TypeTable, TLC
LOCAL INSTANCE Builtins
EG == INSTANCE EnumSpec        \* ExprGrammar + enum numbering, over character codes

\* ---------------------------------------------------------------- characters
Ch(s, i) == IF i >= 1 /\ i <= Len(s) THEN SubSeq(s, i, i) ELSE ""
Printable == " !\"#$%&'()*+,-./0123456789:;<=>?@ABCDEFGHIJKLMNOPQRSTUVWXYZ[\\]^_`abcdefghijklmnopqrstuvwxyz{|}~"
Code(c) == IF c = "\t" THEN 9 ELSE IF c = "\n" THEN 10 ELSE IF c = "\r" THEN 13
           ELSE LET S == {k \in 1..Len(Printable) : SubSeq(Printable, k, k) = c} IN IF S = {} THEN 63 ELSE 31 + (CHOOSE k \in S : TRUE)
Codes(s) == [k \in 1..Len(s) |-> Code(SubSeq(s, k, k))]
IsSp(c) == c \in {" ", "\t", "\n", "\r"}
IsDig(c) == c \in {"0", "1", "2", "3", "4", "5", "6", "7", "8", "9"}
IsAl(c) == c # "" /\ (LET k == Code(c) IN (k >= 65 /\ k <= 90) \/ (k >= 97 /\ k <= 122) \/ k = 95)
IsAn(c) == IsAl(c) \/ IsDig(c)

RECURSIVE SkipSp(_, _), WordEnd(_, _), FindStr(_, _, _), LineEnd(_, _)
SkipSp(s, i) == IF i <= Len(s) /\ Ch(s, i) \in {" ", "\t"} THEN SkipSp(s, i + 1) ELSE i
WordEnd(s, i) == IF IsAn(Ch(s, i)) THEN WordEnd(s, i + 1) ELSE i
\* first index >= i where the two-character string pat starts; 0 if none
FindStr(s, i, pat) == IF i + 1 > Len(s) THEN 0 ELSE IF SubSeq(s, i, i + 1) = pat THEN i ELSE FindStr(s, i + 1, pat)
LineEnd(s, i) == IF i > Len(s) \/ Ch(s, i) = "\n" THEN i ELSE LineEnd(s, i + 1)      \* index of the LF (or Len+1)
RECURSIVE FindCh(_, _, _)
FindCh(s, i, c) == IF i > Len(s) THEN 0 ELSE IF Ch(s, i) = c THEN i ELSE FindCh(s, i + 1, c)
RECURSIVE RTrim(_)
RTrim(s) == IF Len(s) > 0 /\ IsSp(Ch(s, Len(s))) THEN RTrim(SubSeq(s, 1, Len(s) - 1)) ELSE s
RECURSIVE LTrim(_)
LTrim(s) == IF Len(s) > 0 /\ IsSp(Ch(s, 1)) THEN LTrim(SubSeq(s, 2, Len(s))) ELSE s
Trim(s) == LTrim(RTrim(s))

\* ---------------------------------------------------------------- tokens:  [t, s, v]
\*   "id" word | "num" number | "p" one punctuation character | "dim" text between [ ] | "define" (s = name, v = value text)
Tok(t, s, v) == [t |-> t, s |-> s, v |-> v]
ErrTok == Tok("err", "", "")

RECURSIVE Lex(_, _, _)
Lex(s, i, acc) ==
  IF i > Len(s) THEN acc
  ELSE LET c == Ch(s, i)
           c2 == Ch(s, i + 1)
       IN IF IsSp(c) THEN Lex(s, i + 1, acc)
          ELSE IF c = "/" /\ c2 = "*" THEN (LET e == FindStr(s, i + 2, "*/") IN IF e = 0 THEN Append(acc, ErrTok) ELSE Lex(s, e + 2, acc))
          ELSE IF c = "/" /\ c2 = "/" THEN Lex(s, LineEnd(s, i) + 1, acc)
          ELSE IF c = "#"
          THEN LET w == WordEnd(s, i + 1)
                   n1 == SkipSp(s, w)
                   n2 == WordEnd(s, n1)
                   le == LineEnd(s, n2)
               IN IF SubSeq(s, i + 1, w - 1) # "define" \/ n2 = n1 THEN Append(acc, ErrTok)
                  ELSE Lex(s, le + 1, Append(acc, Tok("define", SubSeq(s, n1, n2 - 1), Trim(SubSeq(s, n2, le - 1)))))
          ELSE IF IsAl(c) THEN (LET e == WordEnd(s, i) IN Lex(s, e, Append(acc, Tok("id", SubSeq(s, i, e - 1), ""))))
          ELSE IF IsDig(c) THEN (LET e == WordEnd(s, i) IN Lex(s, e, Append(acc, Tok("num", SubSeq(s, i, e - 1), ""))))
          ELSE IF c = "[" THEN (LET e == FindCh(s, i + 1, "]") IN
                                IF e = 0 THEN Append(acc, ErrTok) ELSE Lex(s, e + 1, Append(acc, Tok("dim", SubSeq(s, i + 1, e - 1), ""))))
          ELSE Lex(s, i + 1, Append(acc, Tok("p", c, "")))

\* ---------------------------------------------------------------- helpers on token sequences
At(toks, i) == IF i <= Len(toks) THEN toks[i] ELSE ErrTok
IsP(toks, i, c) == At(toks, i).t = "p" /\ At(toks, i).s = c
IsId(toks, i) == At(toks, i).t = "id"
IsKw(toks, i, ws) == IsId(toks, i) /\ At(toks, i).s \in ws
RECURSIVE IdsEnd(_, _), JoinIds(_, _, _), StarsEnd(_, _), DimsEnd(_, _)
IdsEnd(toks, i) == IF IsId(toks, i) THEN IdsEnd(toks, i + 1) ELSE i
JoinIds(toks, i, j) == IF i > j THEN "" ELSE IF i = j THEN toks[i].s ELSE toks[i].s \o " " \o JoinIds(toks, i + 1, j)
StarsEnd(toks, i) == IF IsP(toks, i, "*") THEN StarsEnd(toks, i + 1) ELSE i
DimsEnd(toks, i) == IF At(toks, i).t = "dim" THEN DimsEnd(toks, i + 1) ELSE i

\* the spelling of the tokens i..j separated by blanks (an expression handed to ExprGrammar)
RECURSIVE Spell(_, _, _)
Spell(toks, i, j) == IF i > j THEN "" ELSE toks[i].s \o (IF i < j THEN " " ELSE "") \o Spell(toks, i + 1, j)

\* ---------------------------------------------------------------- expressions
ConstEnv(consts) == [ctx |-> << >>, consts |-> [k \in 1..Len(consts) |-> <<Codes(consts[k][1]), consts[k][2]>>], sizes |-> << >>]
\* sizes of the types known so far, for sizeof(): every name of the table that resolves to a type of static size
\* (computed only for expressions that use sizeof)
RECURSIVE SetToSeq(_)
SetToSeq(S) == IF S = {} THEN << >> ELSE LET x == CHOOSE y \in S : TRUE IN <<x>> \o SetToSeq(S \ {x})
SizeMode == [endian |-> "<", align |-> FALSE, ptr |-> 8]
SizeEnv(tab) ==
  LET ok == {n \in DOMAIN tab : IsType(Resolve(tab, tab[n])) /\ SizeOf(Resolve(tab, tab[n]).id, SizeMode) # Dyn}
      seq == SetToSeq(ok)
  IN [k \in 1..Len(seq) |-> <<Codes(seq[k]), SizeOf(Resolve(tab, tab[seq[k]]).id, SizeMode)>>]

\* the words of an expression text (identifiers), to see whether it names an earlier field
RECURSIVE WordsOf(_, _, _)
WordsOf(s, i, acc) ==
  IF i > Len(s) THEN acc
  ELSE IF IsAl(Ch(s, i)) THEN (LET e == WordEnd(s, i) IN WordsOf(s, e, acc \cup {SubSeq(s, i, e - 1)}))
  ELSE IF IsDig(Ch(s, i)) THEN WordsOf(s, WordEnd(s, i), acc)
  ELSE WordsOf(s, i + 1, acc)
ExprVal(text, consts, tab) ==     \* [wf, v] of a constant expression
  EG!Meaning(Codes(text), [ctx |-> << >>, consts |-> ConstEnv(consts).consts,
                           sizes |-> IF "sizeof" \in WordsOf(text, 1, {}) THEN SizeEnv(tab) ELSE << >>])
RECURSIVE Squeeze(_)
Squeeze(s) == IF s = "" THEN "" ELSE IF Ch(s, 1) = " " THEN Squeeze(SubSeq(s, 2, Len(s))) ELSE Ch(s, 1) \o Squeeze(SubSeq(s, 2, Len(s)))

\* the length form of one count: a count that names no earlier field of the structure and has a constant value is fixed
DimLen(text, fieldnames, consts, tab) ==
  LET t == Trim(text) IN
  IF t = "" THEN [k |-> "null"]
  ELSE IF t = "EOF" THEN [k |-> "eof"]
  ELSE LET val == ExprVal(t, consts, tab) IN
       IF WordsOf(t, 1, {}) \cap fieldnames = {} /\ val.wf /\ val.v # EG!XX
       THEN [k |-> "fixed", n |-> IF val.v < 0 THEN 0 ELSE val.v]
       ELSE [k |-> "expr", text |-> Squeeze(t)]

\* ---------------------------------------------------------------- types
Ty(x) == [t |-> "type", id |-> x, uid |-> 0]
Nm(x) == [t |-> "name", id |-> x]
RECURSIVE Stars(_, _)
Stars(t, n) == IF n = 0 THEN t
               ELSE Stars([k |-> "ptr", target |-> IF t.k \in {"struct", "union"} /\ t.name # "" THEN [k |-> "ref", name |-> t.name] ELSE t], n - 1)
\* x[a][b] is a arrays of b elements: the last count is applied first
RECURSIVE Dims(_, _, _, _, _, _, _)
Dims(t, toks, i, j, fieldnames, consts, tab) ==
  IF j < i THEN t ELSE Dims([k |-> "arr", elem |-> t, len |-> DimLen(toks[j].s, fieldnames, consts, tab)], toks, i, j - 1, fieldnames, consts, tab)

\* declarator at i:  '*'* NAME dims*  ->  [ok, name, type, i]
Declarator(base, toks, i, fieldnames, consts, tab) ==
  LET s == StarsEnd(toks, i)
      d == DimsEnd(toks, s + 1)
  IN IF ~IsId(toks, s) THEN [ok |-> FALSE, name |-> "", type |-> base, i |-> i]
     ELSE [ok |-> TRUE, name |-> toks[s].s, type |-> Dims(Stars(base, s - i), toks, s + 1, d - 1, fieldnames, consts, tab), i |-> d]

RECURSIVE FoldedNames(_)
FoldedNames(t) == UNION {(IF t.fields[j].name = "" THEN {} ELSE {t.fields[j].name})
                         \cup (IF t.fields[j].anon /\ t.fields[j].type.k \in {"struct", "union"} THEN FoldedNames(t.fields[j].type) ELSE {})
                         : j \in 1..Len(t.fields)}

\* ---------------------------------------------------------------- composite bodies
\* st = [tab, consts]; result [ok, fields, i] with i after the closing '}'
RECURSIVE Body(_, _, _, _, _, _), Composite(_, _, _)
\* self = [k, name] of the structure being defined ("" if it has no name yet): a pointer may refer to it
Body(toks, i0, st, fields, names, self) ==
  LET i == IF IsKw(toks, i0, {"struct", "union"}) /\ IsId(toks, i0 + 1) /\ ~IsP(toks, i0 + 2, "{") THEN i0 + 1 ELSE i0 IN   \* "struct T *p;"
  IF IsP(toks, i, "}") THEN [ok |-> TRUE, fields |-> fields, i |-> i + 1]
  ELSE IF IsKw(toks, i, {"struct", "union"}) /\ (IsP(toks, i + 1, "{") \/ (IsId(toks, i + 1) /\ IsP(toks, i + 2, "{")))
  THEN \* a structure declared in place: anonymous member, or a named member of an anonymous (or tagged) type
       LET c == Composite(toks, i, st) IN
       IF ~c.ok THEN [ok |-> FALSE, fields |-> fields, i |-> i]
       ELSE IF IsP(toks, c.i, ";")
       THEN \* (the members of an anonymous member are members of this structure: their names keep a count from being a constant)
            Body(toks, c.i + 1, st, Append(fields, [name |-> "", type |-> c.type, bits |-> 0, anon |-> TRUE]), names \cup FoldedNames(c.type), self)
       ELSE LET d == Declarator(c.type, toks, c.i, names, st.consts, st.tab) IN
            IF ~d.ok \/ ~IsP(toks, d.i, ";") THEN [ok |-> FALSE, fields |-> fields, i |-> i]
            ELSE Body(toks, d.i + 1, st, Append(fields, [name |-> d.name, type |-> d.type, bits |-> 0, anon |-> FALSE]), names \cup {d.name}, self)
  ELSE \* TYPE declarator [: bits] ;      TYPE = all words but the last one before the declarator's name
       LET e == IdsEnd(toks, i)                       \* words i .. e-1; if stars follow, all of them name the type
           starred == IsP(toks, e, "*")
           tyend == IF starred THEN e - 1 ELSE e - 2
           tname == JoinIds(toks, i, tyend)
           isself == starred /\ self.name # "" /\ tname = self.name
           base == IF isself THEN Ty([k |-> self.k, name |-> self.name, fields |-> << >>]) ELSE Resolve(st.tab, Nm(tname))
           d == Declarator(base.id, toks, tyend + 1, names, st.consts, st.tab)
       IN IF tyend < i \/ ~IsType(base) \/ ~d.ok THEN [ok |-> FALSE, fields |-> fields, i |-> i]
          ELSE IF IsP(toks, d.i, ":") /\ At(toks, d.i + 1).t = "num" /\ IsP(toks, d.i + 2, ";")
          THEN LET b == ExprVal(toks[d.i + 1].s, << >>, st.tab).v IN
               Body(toks, d.i + 3, st, Append(fields, [name |-> d.name, type |-> d.type, bits |-> b, anon |-> FALSE]), names \cup {d.name}, self)
          ELSE IF IsP(toks, d.i, ";")
          THEN Body(toks, d.i + 1, st, Append(fields, [name |-> d.name, type |-> d.type, bits |-> 0, anon |-> FALSE]), names \cup {d.name}, self)
          ELSE [ok |-> FALSE, fields |-> fields, i |-> i]

\* ('struct'|'union') [NAME] '{' body '}'   ->  [ok, type (name "" if none), i]
Composite(toks, i, st) ==
  LET named == IsId(toks, i + 1)
      open == IF named THEN i + 2 ELSE i + 1
      b == Body(toks, open + 1, st, << >>, {}, [k |-> At(toks, i).s, name |-> IF named THEN toks[i + 1].s ELSE ""])
  IN IF ~IsKw(toks, i, {"struct", "union"}) \/ ~IsP(toks, open, "{") \/ ~b.ok THEN [ok |-> FALSE, type |-> [k |-> "void"], i |-> i]
     ELSE [ok |-> TRUE, type |-> [k |-> toks[i].s, name |-> IF named THEN toks[i + 1].s ELSE "", fields |-> b.fields], i |-> b.i]

\* NAME {, NAME} ;   ->  [ok, names, i]
RECURSIVE NameList(_, _, _)
NameList(toks, i, acc) ==
  IF IsId(toks, i) /\ IsP(toks, i + 1, ",") THEN NameList(toks, i + 2, Append(acc, toks[i].s))
  ELSE IF IsId(toks, i) /\ IsP(toks, i + 1, ";") THEN [ok |-> TRUE, names |-> Append(acc, toks[i].s), i |-> i + 2]
  ELSE [ok |-> FALSE, names |-> acc, i |-> i]

\* ---------------------------------------------------------------- enums
\* members up to '}' : NAME ['=' expression] separated by commas  ->  [ok, members (name, text), i]
RECURSIVE ExprEnd(_, _), EnumMembers(_, _, _)
ExprEnd(toks, i) == IF i > Len(toks) \/ IsP(toks, i, ",") \/ IsP(toks, i, "}") THEN i ELSE ExprEnd(toks, i + 1)
EnumMembers(toks, i, acc) ==
  IF IsP(toks, i, "}") THEN [ok |-> TRUE, members |-> acc, i |-> i + 1]
  ELSE IF ~IsId(toks, i) THEN [ok |-> FALSE, members |-> acc, i |-> i]
  ELSE LET hasv == IsP(toks, i + 1, "=")
           e == IF hasv THEN ExprEnd(toks, i + 2) ELSE i + 1
           m == [name |-> toks[i].s, text |-> IF hasv THEN Spell(toks, i + 2, e - 1) ELSE ""]
       IN IF IsP(toks, e, ",") THEN EnumMembers(toks, e + 1, Append(acc, m))       \* (a comma may also follow the last member)
          ELSE IF IsP(toks, e, "}") THEN [ok |-> TRUE, members |-> Append(acc, m), i |-> e + 1]
          ELSE [ok |-> FALSE, members |-> acc, i |-> i]

EnumType(name, flag, base, members, consts) ==
  LET decl == [flag |-> flag, members |-> [k \in 1..Len(members) |-> [name |-> Codes(members[k].name), text |-> Codes(members[k].text)]]]
      vals == EG!Members(decl, ConstEnv(consts).consts)
  IN [k |-> "enum", name |-> name, flag |-> flag, base |-> base, members |-> [k \in 1..Len(members) |-> <<members[k].name, vals[k][2]>>]]

\* ---------------------------------------------------------------- declarations
\* the name table as Trace_Parser folds it, one declaration at a time (only what later declarations resolve against)
Bind(tab, names, target) == [n \in DOMAIN tab \cup {names[k] : k \in 1..Len(names)} |-> IF n \in {names[k] : k \in 1..Len(names)} THEN target ELSE tab[n]]
Dedup(names) == IF Len(names) >= 2 /\ names[1] = names[2] THEN Tail(names) ELSE names

RECURSIVE Top(_, _, _)
\* st = [ok, tab, consts, decls]
Top(toks, i, st) ==
  IF i > Len(toks) \/ ~st.ok THEN st
  ELSE LET k == toks[i]
           bad == [st EXCEPT !.ok = FALSE]
       IN
       IF k.t = "define"
       THEN LET val == ExprVal(k.v, st.consts, st.tab) IN
            IF ~val.wf \/ val.v = EG!XX THEN bad ELSE Top(toks, i + 1, [st EXCEPT !.consts = Append(@, <<k.s, val.v>>)])
       ELSE IF IsKw(toks, i, {"struct", "union"})
       THEN \* struct NAME { ... } [names] ;
            \* (the ';' may be left out before the next declaration or the end of the text;
            \*  a structure without a name takes the first of the names after its body)
            LET c == Composite(toks, i, st)
                nextdecl == c.i > Len(toks) \/ IsKw(toks, c.i, {"struct", "union", "typedef", "enum", "flag"}) \/ At(toks, c.i).t = "define"
                nl == IF IsP(toks, c.i, ";") THEN [ok |-> TRUE, names |-> << >>, i |-> c.i + 1]
                      ELSE IF nextdecl THEN [ok |-> TRUE, names |-> << >>, i |-> c.i]
                      ELSE NameList(toks, c.i, << >>)
            IN IF ~c.ok \/ ~nl.ok \/ (c.type.name = "" /\ nl.names = << >>) THEN bad
               ELSE LET ty == IF c.type.name = "" THEN [c.type EXCEPT !.name = nl.names[1]] ELSE c.type
                        names == Dedup(<<ty.name>> \o nl.names)
                    IN Top(toks, nl.i, [st EXCEPT !.tab = Bind(@, names, Ty(ty)),
                                                  !.decls = Append(@, [kind |-> "type", names |-> names, type |-> ty])])
       ELSE IF IsKw(toks, i, {"typedef"}) /\ IsKw(toks, i + 1, {"struct", "union"}) /\ (IsP(toks, i + 2, "{") \/ IsP(toks, i + 3, "{"))
       THEN \* typedef struct [NAME] { ... } names ;     an anonymous structure takes its first name
            \* typedef struct [NAME] { ... } *P ;  |  ... A[n] ;     a pointer / array declarator names the pointer / array type:
            \*                                      the structure is known by its tag only, without one it stays anonymous
            LET c == Composite(toks, i + 1, st)
                nl == NameList(toks, c.i, << >>)
                starred == IsP(toks, c.i, "*")
                s == IF starred THEN c.i + 1 ELSE c.i
                hasdim == At(toks, s + 1).t = "dim"
                fin == IF hasdim THEN s + 2 ELSE s + 1
                isdecl == c.ok /\ (starred \/ (IsId(toks, c.i) /\ hasdim))
            IN IF isdecl
               THEN IF ~IsId(toks, s) \/ ~IsP(toks, fin, ";") \/ (starred /\ hasdim) THEN bad
                    ELSE LET tagnames == IF c.type.name = "" THEN << >> ELSE << c.type.name >>
                             ln == IF hasdim THEN DimLen(toks[s + 1].s, {}, st.consts, st.tab) ELSE [k |-> "fixed", n |-> 0]
                             aty == IF starred THEN Stars(c.type, 1) ELSE [k |-> "arr", elem |-> c.type, len |-> ln]
                         IN IF ln.k # "fixed" THEN bad
                            ELSE Top(toks, fin + 1, [st EXCEPT !.tab = Bind(Bind(@, tagnames, Ty(c.type)), << toks[s].s >>, Ty(aty)),
                                                               !.decls = Append(@, [kind |-> "typedecl", names |-> tagnames, type |-> c.type,
                                                                                    alias |-> toks[s].s, ptr |-> starred, n |-> ln.n])])
               ELSE
               IF ~c.ok \/ ~nl.ok THEN bad
               ELSE LET ty == IF c.type.name = "" THEN [c.type EXCEPT !.name = nl.names[1]] ELSE c.type
                        names == Dedup(<<ty.name>> \o nl.names)
                    IN Top(toks, nl.i, [st EXCEPT !.tab = Bind(@, names, Ty(ty)),
                                                  !.decls = Append(@, [kind |-> "type", names |-> names, type |-> ty])])
       ELSE IF IsKw(toks, i, {"typedef"})
       THEN \* typedef TYPE [*] NAME [ [n] ] ;
            LET e == IdsEnd(toks, i + 1)
                starred == IsP(toks, e, "*")
                tyend == IF starred THEN e - 1 ELSE e - 2
                tname == JoinIds(toks, i + 1, tyend)
                s == StarsEnd(toks, tyend + 1)
                nm == At(toks, s)
                hasdim == At(toks, s + 1).t = "dim"
                fin == IF hasdim THEN s + 2 ELSE s + 1
                tgt == Resolve(st.tab, Nm(tname))
            IN IF tyend < i + 1 \/ nm.t # "id" \/ ~IsP(toks, fin, ";") \/ (starred /\ hasdim) \/ s - (tyend + 1) > 1 THEN bad
               ELSE IF ~IsType(tgt) THEN bad                  \* a reference to an unknown type is an error
               ELSE IF starred
               THEN Top(toks, fin + 1, [st EXCEPT !.tab = Bind(@, <<nm.s>>, Ty(Stars(tgt.id, 1))),
                                                  !.decls = Append(@, [kind |-> "aliasptr", names |-> <<nm.s>>, target |-> tname, n |-> 0])])
               ELSE IF hasdim
               THEN LET ln == DimLen(toks[s + 1].s, {}, st.consts, st.tab) IN
                    IF ln.k # "fixed" THEN bad
                    ELSE Top(toks, fin + 1, [st EXCEPT !.tab = Bind(@, <<nm.s>>, Ty([k |-> "arr", elem |-> tgt.id, len |-> ln])),
                                                       !.decls = Append(@, [kind |-> "aliasarr", names |-> <<nm.s>>, target |-> tname, n |-> ln.n])])
               ELSE Top(toks, fin + 1, [st EXCEPT !.tab = Bind(@, <<nm.s>>, tgt),
                                                  !.decls = Append(@, [kind |-> "alias", names |-> <<nm.s>>, target |-> tname])])
       ELSE IF IsKw(toks, i, {"enum", "flag"}) /\ IsP(toks, i + 1, ":")
       THEN \* enum : TYPE { members } ;     an enumeration without a name declares its members as constants
            LET be == IdsEnd(toks, i + 2)
                base == Resolve(st.tab, Nm(JoinIds(toks, i + 2, be - 1)))
                ms == EnumMembers(toks, be + 1, << >>)
            IN IF ~IsP(toks, be, "{") \/ ~IsType(base) \/ ~ms.ok \/ ~IsP(toks, ms.i, ";") THEN bad
               ELSE LET ty == EnumType("", toks[i].s = "flag", base.id, ms.members, st.consts) IN
                    Top(toks, ms.i + 1, [st EXCEPT !.consts = @ \o ty.members])
       ELSE IF IsKw(toks, i, {"enum", "flag"}) /\ IsId(toks, i + 1)
       THEN \* enum NAME [: TYPE] { members } ;
            LET hasbase == IsP(toks, i + 2, ":")
                be == IF hasbase THEN IdsEnd(toks, i + 3) ELSE i + 2
                base == IF hasbase THEN Resolve(st.tab, Nm(JoinIds(toks, i + 3, be - 1))) ELSE Ty(Builtin("uint32"))
                ms == EnumMembers(toks, be + 1, << >>)
            IN IF ~IsP(toks, be, "{") \/ ~IsType(base) \/ ~ms.ok \/ ~IsP(toks, ms.i, ";") THEN bad
               ELSE LET ty == EnumType(toks[i + 1].s, toks[i].s = "flag", base.id, ms.members, st.consts) IN
                    Top(toks, ms.i + 1, [st EXCEPT !.tab = Bind(@, <<ty.name>>, Ty(ty)),
                                                   !.decls = Append(@, [kind |-> "type", names |-> <<ty.name>>, type |-> ty])])
       ELSE bad

\* the meaning of a sequence of texts loaded one after the other into one cstruct object
Tab0 == [n \in BuiltinNames |-> Ty(Builtin(n))]
RECURSIVE ParseTexts(_, _, _)
ParseTexts(texts, j, st) ==
  IF j > Len(texts) \/ ~st.ok THEN st
  ELSE LET toks == Lex(texts[j], 1, << >>) IN
       IF \E k \in 1..Len(toks) : toks[k].t = "err" THEN [st EXCEPT !.ok = FALSE]
       ELSE ParseTexts(texts, j + 1, Top(toks, 1, st))
Parse(texts) == ParseTexts(texts, 1, [ok |-> TRUE, tab |-> Tab0, consts |-> << >>, decls |-> << >>])
=============================================================================
