------------------------------- MODULE Codec -------------------------------
(***************************************************************************)
(* The meaning of a type on bytes: big-step Decode and Encode.             *)
(*                                                                         *)
(* Values are tagged records:                                              *)
(*   int   [k |-> "int", neg, mag]          (see Ints)                     *)
(*   float [k |-> "float", bits]            IEEE pattern, big-endian bytes *)
(*   bytes [k |-> "bytes", b]   str [k |-> "str", cps]   void [k|->"void"] *)
(*   enum  [k |-> "enum", cls, v]   ptr [k |-> "ptr", addr]                *)
(*   list  [k |-> "list", items]                                           *)
(*   struct/union [k |-> "struct", cls, names, vals]                       *)
(*                                                                         *)
(* Decode(t, m, inp, pos, ctx, consts) reads type t at 0-based position    *)
(* pos of the byte sequence inp and returns                                *)
(*   [ok, err, v, pos, sizes, lax]                                         *)
(* err \in {"eof", "decode", "domain"}; "domain" = outside the modelled    *)
(* domain (unguarded expression value); lax = the statement of the         *)
(* properties leaves the outcome open between this value and EOFError      *)
(* (partial trailing element of an [EOF] array, cut inside trailing        *)
(* padding).  sizes = bytes occupied by each field of a struct/union       *)
(* (-1 for bit-fields, which record none).                                 *)
(*                                                                         *)
(* Enc(t, m, v, pos) writes v at output position pos and returns           *)
(* [b, k]: the bytes and, per byte, the mask of bits that carry data (the  *)
(* rest is alignment padding or unassigned bit-field bits, written 0).     *)
(***************************************************************************)
EXTENDS Layout, ExprAst

NoVal == [k |-> "none"]
OkR(v, p)  == [ok |-> TRUE,  err |-> "",  v |-> v,     pos |-> p, sizes |-> << >>, fl |-> {}]
ErrR(e)    == [ok |-> FALSE, err |-> e,   v |-> NoVal, pos |-> 0, sizes |-> << >>, fl |-> {}]

\* does an observed failure class match the specified one?
ErrMatches(status, err) == status = err \/ (err = "eof-or-decode" /\ status \in {"eof", "decode"})

Endian(bytes, m) == IF m.endian = "<" THEN bytes ELSE Rev(bytes)

-----------------------------------------------------------------------------
\* UTF-16: 16-bit units -> code points.  [ok, cps]
RECURSIVE U16(_, _)
U16(units, acc) ==
  IF Len(units) = 0 THEN [ok |-> TRUE, cps |-> acc]
  ELSE LET u == units[1] IN
       IF u >= 55296 /\ u <= 56319
       THEN IF Len(units) >= 2 /\ units[2] >= 56320 /\ units[2] <= 57343
            THEN U16(SubSeq(units, 3, Len(units)), Append(acc, 65536 + (u - 55296) * 1024 + (units[2] - 56320)))
            ELSE [ok |-> FALSE, cps |-> acc]
       ELSE IF u >= 56320 /\ u <= 57343 THEN [ok |-> FALSE, cps |-> acc]
       ELSE U16(Tail(units), Append(acc, u))

RECURSIVE Units(_, _)
Units(bytes, m) ==
  IF Len(bytes) < 2 THEN << >>
  ELSE << (IF m.endian = "<" THEN bytes[1] + 256 * bytes[2] ELSE bytes[2] + 256 * bytes[1]) >>
       \o Units(SubSeq(bytes, 3, Len(bytes)), m)

RECURSIVE CpsToBytes(_, _)
CpsToBytes(cps, m) ==
  IF Len(cps) = 0 THEN << >>
  ELSE LET c == cps[1]
           U(u) == IF m.endian = "<" THEN << u % 256, u \div 256 >> ELSE << u \div 256, u % 256 >>
       IN (IF c >= 65536 THEN U(55296 + ((c - 65536) \div 1024)) \o U(56320 + ((c - 65536) % 1024)) ELSE U(c))
          \o CpsToBytes(Tail(cps), m)

-----------------------------------------------------------------------------
\* LEB128
RECURSIVE LebBits(_, _, _)
LebBits(inp, pos, acc) ==   \* acc: payload bits, LSB first
  IF pos + 1 > Len(inp) THEN [ok |-> FALSE, bits |-> acc, pos |-> pos, last |-> 0]
  ELSE LET b == inp[pos + 1]
           g == [j \in 1..7 |-> (b \div (2^(j-1))) % 2]
       IN IF b >= 128 THEN LebBits(inp, pos + 1, acc \o g)
          ELSE [ok |-> TRUE, bits |-> acc \o g, pos |-> pos + 1, last |-> b]
SignExtend(bits, neg) == bits \o [j \in 1..(((8 - (Len(bits) % 8)) % 8) + 8) |-> IF neg THEN 1 ELSE 0]
LebVal(r, signed) == LET neg == signed /\ ((r.last \div 64) % 2 = 1) IN IntVal(BitsToBytes(SignExtend(r.bits, neg)), signed)

\* canonical (minimal) encoding: emit 7-bit groups until the rest is pure sign and, for signed, bit 6 agrees with the sign
RECURSIVE LebGroups(_, _, _)
LebGroups(bits, neg, signed) ==
  LET g == SubSeq(bits, 1, 7)
      rest == SubSeq(bits, 8, Len(bits))
      byte == g[1] + 2*g[2] + 4*g[3] + 8*g[4] + 16*g[5] + 32*g[6] + 64*g[7]
      restAll(x) == \A j \in 1..Len(rest) : rest[j] = x
      done == IF signed THEN (restAll(0) /\ g[7] = 0) \/ (restAll(1) /\ g[7] = 1 /\ neg) ELSE restAll(0)
  IN IF done \/ Len(rest) < 7 THEN << byte >> ELSE << byte + 128 >> \o LebGroups(rest, neg, signed)
LebEncode(v, signed) ==
  LET w == Len(v.mag) + 2
      bytes == IF v.neg THEN NegLimbs(MagToLE(v.mag, w), 1, 1) ELSE MagToLE(v.mag, w)
  IN LebGroups(BytesToBits(bytes) \o [j \in 1..14 |-> IF v.neg THEN 1 ELSE 0], v.neg, signed)

\* IEEE-754 NaN test on the big-endian byte pattern of a binary16/32/64 float
IsNaN(be) ==
  CASE Len(be) = 2 -> BAnd(be[1], 124) = 124 /\ (BAnd(be[1], 3) # 0 \/ be[2] # 0)
    [] Len(be) = 4 -> BAnd(be[1], 127) = 127 /\ be[2] >= 128 /\ (BAnd(be[2], 127) # 0 \/ be[3] # 0 \/ be[4] # 0)
    [] Len(be) = 8 -> BAnd(be[1], 127) = 127 /\ BAnd(be[2], 240) = 240
                      /\ (BAnd(be[2], 15) # 0 \/ \E j \in 3..8 : be[j] # 0)
    [] OTHER -> FALSE

-----------------------------------------------------------------------------
\* truthiness of a value "as the Python value it is" (C17) and the zero test of null-terminated arrays (C07)
RECURSIVE Truthy(_)
Truthy(v) ==
  CASE v.k = "int"    -> v.mag # << >>
    [] v.k = "enum"   -> v.v.mag # << >>
    [] v.k = "ptr"    -> v.addr.mag # << >>
    [] v.k = "bytes"  -> Len(v.b) > 0
    [] v.k = "str"    -> Len(v.cps) > 0
    [] v.k = "list"   -> Len(v.items) > 0
    [] v.k = "float"  -> \E j \in 1..Len(v.bits) : v.bits[j] # 0 /\ ~(j = 1 /\ v.bits[j] = 128)
    [] v.k = "struct" -> \E j \in 1..Len(v.vals) : Truthy(v.vals[j])
    [] OTHER -> FALSE
IsZero(v) == ~Truthy(v)

\* context seen by length expressions: the fields parsed so far (the last one wins for repeated names)
CtxOf(names, vals) ==
  [nm \in {names[j] : j \in 1..Len(names)} |-> vals[SetMax({j \in 1..Len(names) : names[j] = nm})]]

\* names / values visible to the expressions of a member of t once the members with a value in `vals` were read: every such
\* member by name, and the members of anonymous structure / union members (recursively) as if they were members of t itself
\* (finding F39).  vals[j] = [k |-> "none"] = not read yet.
RECURSIVE FoldN(_, _, _), FoldV(_, _, _)
FoldsInto(f, v) == f.anon /\ f.type.k \in {"struct", "union"} /\ v.k = "struct"
FoldN(t, vals, j) ==
  IF j > Len(vals) THEN << >>
  ELSE IF vals[j].k = "none" THEN FoldN(t, vals, j + 1)
  ELSE <<t.fields[j].name>> \o (IF FoldsInto(t.fields[j], vals[j]) THEN FoldN(t.fields[j].type, vals[j].vals, 1) ELSE << >>)
       \o FoldN(t, vals, j + 1)
FoldV(t, vals, j) ==
  IF j > Len(vals) THEN << >>
  ELSE IF vals[j].k = "none" THEN FoldV(t, vals, j + 1)
  ELSE <<vals[j]>> \o (IF FoldsInto(t.fields[j], vals[j]) THEN FoldV(t.fields[j].type, vals[j].vals, 1) ELSE << >>)
       \o FoldV(t, vals, j + 1)
CtxFields(t, vals) == CtxOf(FoldN(t, vals, 1), FoldV(t, vals, 1))

\* a length that is just the name of an earlier unsigned field holding 2^24 or more (what a corrupted length field looks like):
\* beyond the integers the expression model is guarded to, but certainly more elements than any input here holds
HugeLen == 16000000
BareHuge(len, ctx) ==
  /\ len.k = "expr" /\ len.e.k = "id" /\ len.e.name \in DOMAIN ctx
  /\ LET v == ctx[len.e.name] IN v.k = "int" /\ ~v.neg /\ Len(v.mag) >= 4
ArrLen(len, ctx, consts) ==   \* number of elements of a fixed / expression array; XX = outside the domain
  IF len.k = "fixed" THEN len.n
  ELSE IF BareHuge(len, ctx) THEN HugeLen
  ELSE LET n == EvalAst(len.e, ctx, consts) IN IF n = XX THEN XX ELSE Max2(0, n)

-----------------------------------------------------------------------------
RECURSIVE Decode(_, _, _, _, _, _), DecodeFields(_, _, _, _, _, _, _, _, _),
          DecodeN(_, _, _, _, _, _, _, _, _), DecodeNull(_, _, _, _, _, _, _, _), DecodeEof(_, _, _, _, _, _, _, _),
          DecodeMembers(_, _, _, _, _, _, _, _)

Decode(t, m, inp, pos, ctx, consts) ==
  CASE t.k = "int" ->
         IF pos + t.size > Len(inp) THEN ErrR("eof")
         ELSE OkR(IntVal(Endian(Slice(inp, pos, t.size), m), t.signed), pos + t.size)
    [] t.k = "ptr" ->
         IF pos + m.ptr > Len(inp) THEN ErrR("eof")
         ELSE OkR([k |-> "ptr", addr |-> IntVal(Endian(Slice(inp, pos, m.ptr), m), FALSE)], pos + m.ptr)
    [] t.k = "enum" ->
         LET r == Decode(t.base, m, inp, pos, ctx, consts) IN
         IF r.ok THEN [r EXCEPT !.v = [k |-> "enum", cls |-> t.name, v |-> r.v]] ELSE r
    [] t.k = "char" ->
         IF pos + 1 > Len(inp) THEN ErrR("eof") ELSE OkR([k |-> "bytes", b |-> Slice(inp, pos, 1)], pos + 1)
    [] t.k = "wchar" ->
         IF pos + 2 > Len(inp) THEN ErrR("eof")
         ELSE LET d == U16(Units(Slice(inp, pos, 2), m), << >>) IN
              IF d.ok THEN OkR([k |-> "str", cps |-> d.cps], pos + 2) ELSE ErrR("decode")
    [] t.k = "float" ->
         IF pos + t.size > Len(inp) THEN ErrR("eof")
         ELSE LET be == Rev(Endian(Slice(inp, pos, t.size), m)) IN
              [OkR([k |-> "float", bits |-> be], pos + t.size) EXCEPT !.fl = IF IsNaN(be) THEN {"nan"} ELSE {}]
    [] t.k = "leb" ->
         LET r == LebBits(inp, pos, << >>) IN
         IF ~r.ok THEN ErrR("eof")
         ELSE LET v == LebVal(r, t.signed) IN
              [OkR(v, r.pos) EXCEPT !.fl = IF LebEncode(v, t.signed) = SubSeq(inp, pos + 1, r.pos) THEN {} ELSE {"nonmin"}]
    [] t.k = "void" -> OkR([k |-> "void"], pos)
    [] t.k = "union" ->
         LET sz == SizeOf(t, m) IN
         IF sz # Dyn
         THEN \* all members are views of the same sz bytes
              LET avail == Min2(Len(inp), pos + sz)
                  win == SubSeq(inp, 1, avail)
                  r == DecodeMembers(t, m, win, pos, consts, 1, [names |-> << >>, vals |-> << >>, sizes |-> << >>, fl |-> {}], FALSE)
              IN IF ~r.ok THEN (IF avail < pos + sz /\ r.err = "decode" THEN ErrR("eof-or-decode") ELSE r)   \* the shortage may be noticed first
                 ELSE [r EXCEPT !.pos = avail, !.fl = r.fl \cup (IF avail < pos + sz THEN {"lax"} ELSE {})]
         ELSE \* dynamic union: members are read one after the other from the union's start; consumes up to the end of the last
              DecodeMembers(t, m, inp, pos, consts, 1, [names |-> << >>, vals |-> << >>, sizes |-> << >>, fl |-> {}], TRUE)
    [] t.k = "arr" ->
         IF t.elem.k = "char"
         THEN IF t.len.k = "null"
              THEN LET idx == {j \in (pos + 1)..Len(inp) : inp[j] = 0} IN
                   IF idx = {} THEN ErrR("eof")
                   ELSE LET z == SetMin(idx) IN OkR([k |-> "bytes", b |-> SubSeq(inp, pos + 1, z - 1)], z)
              ELSE LET n == IF t.len.k = "eof" THEN Max2(0, Len(inp) - pos) ELSE ArrLen(t.len, ctx, consts) IN
                   IF n = XX THEN ErrR("domain")
                   ELSE IF n > 0 /\ pos + n > Len(inp) THEN ErrR("eof")
                   ELSE OkR([k |-> "bytes", b |-> Slice(inp, pos, n)], pos + n)
         ELSE IF t.elem.k = "wchar"
         THEN LET n == IF t.len.k = "null"
                        THEN LET idx == {j \in 0..((Len(inp) - pos) \div 2 - 1) : inp[pos + 2*j + 1] = 0 /\ inp[pos + 2*j + 2] = 0} IN
                             IF idx = {} THEN -1 ELSE SetMin(idx)
                        ELSE IF t.len.k = "eof" THEN Max2(0, (Len(inp) - pos) \div 2)
                        ELSE ArrLen(t.len, ctx, consts)
                  odd == t.len.k = "eof" /\ Len(inp) > pos /\ ((Len(inp) - pos) % 2) = 1
              IN IF n = XX THEN ErrR("domain")
                 ELSE IF n = -1 \/ (n > 0 /\ pos + 2 * n > Len(inp)) THEN ErrR("eof")
                 ELSE LET d == U16(Units(Slice(inp, pos, 2 * n), m), << >>) IN
                      IF ~d.ok THEN ErrR(IF odd THEN "eof-or-decode" ELSE "decode")   \* which failure is noticed first is open
                      ELSE [OkR([k |-> "str", cps |-> d.cps],
                                IF odd THEN Len(inp) ELSE pos + 2 * n + (IF t.len.k = "null" THEN 2 ELSE 0))
                            EXCEPT !.fl = IF odd THEN {"lax", "laxeof"} ELSE {}]
         ELSE IF t.len.k = "null" THEN DecodeNull(t.elem, m, inp, pos, ctx, consts, << >>, {})
         ELSE IF t.len.k = "eof" THEN DecodeEof(t.elem, m, inp, pos, ctx, consts, << >>, {})
         ELSE LET n == ArrLen(t.len, ctx, consts) IN
              IF n = XX THEN ErrR("domain") ELSE DecodeN(t.elem, m, inp, pos, ctx, consts, n, << >>, {})
    [] t.k = "struct" ->
         LET lay == CLayout(t, m)
             r == DecodeFields(t, m, inp, pos, pos, 1, lay, consts,
                               [vals |-> << >>, names |-> << >>, sizes |-> << >>, unit |-> << >>, fl |-> {}])
         IN IF ~r.ok THEN r
            ELSE LET endp == IF Aligned(t, m) THEN AlignRel(r.pos, pos, AlignOf(t, m)) ELSE r.pos
                 IN [r EXCEPT !.pos = endp, !.fl = r.fl \cup (IF endp > Len(inp) THEN {"lax"} ELSE {})]

\* members of a union, each decoded at the union's start with the members before it as context
DecodeMembers(t, m, inp, pos, consts, j, st, dyn) ==
  IF j > Len(t.fields)
  THEN [ok |-> TRUE, err |-> "", v |-> [k |-> "struct", cls |-> t.name, names |-> st.names, vals |-> st.vals],
        pos |-> IF dyn /\ Len(st.sizes) > 0 THEN pos + st.sizes[Len(st.sizes)] ELSE pos, sizes |-> st.sizes, fl |-> st.fl]
  ELSE LET f == t.fields[j]
           r == Decode(f.type, m, inp, pos, CtxFields(t, st.vals), consts)
       IN IF ~r.ok
          \* an earlier member was accepted although the statement also allows an error there (a partial trailing element of x[EOF]):
          \* an implementation that reports that error never gets to this member - either error is a refusal of the same input
          THEN (IF ("lax" \in st.fl /\ r.err = "decode") \/ ("laxdecode" \in st.fl /\ r.err = "eof") THEN ErrR("eof-or-decode") ELSE ErrR(r.err))
          ELSE DecodeMembers(t, m, inp, pos, consts, j + 1,
                             [names |-> Append(st.names, f.name), vals |-> Append(st.vals, r.v),
                              sizes |-> Append(st.sizes, r.pos - pos), fl |-> st.fl \cup r.fl], dyn)

DecodeN(e, m, inp, pos, ctx, consts, n, acc, fl) ==
  IF n = 0 THEN [OkR([k |-> "list", items |-> acc], pos) EXCEPT !.fl = fl]
  ELSE LET r == Decode(e, m, inp, pos, ctx, consts) IN
       IF ~r.ok THEN ErrR(r.err) ELSE DecodeN(e, m, inp, r.pos, ctx, consts, n - 1, Append(acc, r.v), fl \cup r.fl)

\* every remaining whole element; a partial trailing element leaves the outcome open (lax)
DecodeEof(e, m, inp, pos, ctx, consts, acc, fl) ==
  IF pos >= Len(inp) THEN [OkR([k |-> "list", items |-> acc], pos) EXCEPT !.fl = fl]
  ELSE LET r == Decode(e, m, inp, pos, ctx, consts) IN
       IF ~r.ok THEN (IF r.err = "eof" THEN [OkR([k |-> "list", items |-> acc], Len(inp)) EXCEPT !.fl = fl \cup {"lax", "laxeof"}]
                      \* the partial trailing element is also undecodable: value, EOFError or the decoding error ("laxdecode")
                      ELSE IF r.err = "eof-or-decode" THEN [OkR([k |-> "list", items |-> acc], Len(inp)) EXCEPT !.fl = fl \cup {"lax", "laxeof", "laxdecode"}]
                      ELSE ErrR(r.err))
       ELSE IF r.pos = pos THEN ErrR("domain")   \* zero-size elements never reach the end
       ELSE DecodeEof(e, m, inp, r.pos, ctx, consts, Append(acc, r.v), fl \cup r.fl)

\* up to and consuming the first zero element
DecodeNull(e, m, inp, pos, ctx, consts, acc, fl) ==
  LET r == Decode(e, m, inp, pos, ctx, consts) IN
  IF ~r.ok THEN ErrR(r.err)
  ELSE IF IsZero(r.v) THEN [OkR([k |-> "list", items |-> acc], r.pos) EXCEPT !.fl = fl \cup r.fl]
  ELSE IF r.pos = pos THEN ErrR("domain")
  ELSE DecodeNull(e, m, inp, r.pos, ctx, consts, Append(acc, r.v), fl \cup r.fl)

\* An upper bound of what a reader that fetches consecutive fixed-size members with one read asks for, from member j on.
\* If a member of such a run is undecodable AND the input ends inside the run, which of the two failures is noticed first
\* depends on the reader (field by field, or block-wise like the generated one): the statement leaves it open.
RECURSIVE RunNeed(_, _, _)
RunNeed(t, m, j) ==
  IF j > Len(t.fields) THEN 0
  ELSE LET f == t.fields[j]
           sz == IF f.bits > 0 THEN Storage(f.type).size ELSE SizeOf(f.type, m)
       IN IF sz = Dyn THEN 0 ELSE sz + (IF Aligned(t, m) THEN AlignOf(f.type, m) - 1 ELSE 0) + RunNeed(t, m, j + 1)

\* st.unit: bits of the open storage unit, LSB first of the unit's integer (read in stream endianness)
DecodeFields(t, m, inp, start, pos, i, lay, consts, st) ==
  IF i > Len(t.fields)
  THEN [ok |-> TRUE, err |-> "", v |-> [k |-> "struct", cls |-> t.name, names |-> st.names, vals |-> st.vals],
        pos |-> pos, sizes |-> st.sizes, fl |-> st.fl]
  ELSE LET f == t.fields[i]
           a == IF Aligned(t, m) THEN AlignOf(f.type, m) ELSE 1
           o == lay.offs[i]
           here == IF o >= 0 THEN start + o ELSE IF o = Cont THEN pos ELSE AlignRel(pos, start, a)
       IN IF f.bits > 0
          THEN LET stg == Storage(f.type)
                   fresh == o # Cont
                   total == 8 * stg.size
                   unit == IF fresh THEN BytesToBits(Endian(Slice(inp, here, stg.size), m)) ELSE st.unit
                   used == lay.bitpos[i]
                   mybits == IF m.endian = "<" THEN SubSeq(unit, used + 1, used + f.bits)
                             ELSE SubSeq(unit, total - used - f.bits + 1, total - used)
                   raw == IntVal(BitsToBytes(PadBits(mybits)), FALSE)
                   val == IF f.type.k = "enum" THEN [k |-> "enum", cls |-> f.type.name, v |-> raw] ELSE raw
               IN IF fresh /\ here + stg.size > Len(inp) THEN ErrR("eof")
                  ELSE DecodeFields(t, m, inp, start, IF fresh THEN here + stg.size ELSE pos, i + 1, lay, consts,
                                    [st EXCEPT !.names = Append(@, f.name), !.vals = Append(@, val),
                                               !.sizes = Append(@, -1), !.unit = unit])
          ELSE LET r == Decode(f.type, m, inp, here, CtxFields(t, st.vals), consts) IN
               IF ~r.ok THEN ErrR(IF r.err = "decode" /\ here + RunNeed(t, m, i) > Len(inp) THEN "eof-or-decode" ELSE r.err)
               ELSE DecodeFields(t, m, inp, start, r.pos, i + 1, lay, consts,
                                 [names |-> Append(st.names, f.name), vals |-> Append(st.vals, r.v),
                                  sizes |-> Append(st.sizes, r.pos - here), unit |-> << >>, fl |-> st.fl \cup r.fl])

-----------------------------------------------------------------------------
\* Encoding.  A pair [b, k]: bytes and data-bit masks of equal length.
Full(bytes) == [b |-> bytes, k |-> [i \in 1..Len(bytes) |-> 255]]
Pad(n) == [b |-> Zeros(n), k |-> Zeros(n)]
Cat(p, q) == [b |-> p.b \o q.b, k |-> p.k \o q.k]
NoBytes == [b |-> << >>, k |-> << >>]

RECURSIVE ZeroOf(_, _)
ZeroOf(t, m) ==
  CASE t.k \in {"int", "leb"} -> IntZero
    [] t.k = "enum"  -> [k |-> "enum", cls |-> t.name, v |-> IntZero]
    [] t.k = "ptr"   -> [k |-> "ptr", addr |-> IntZero]
    [] t.k = "float" -> [k |-> "float", bits |-> Zeros(t.size)]
    [] t.k = "char"  -> [k |-> "bytes", b |-> << 0 >>]
    [] t.k = "wchar" -> [k |-> "str", cps |-> << 0 >>]
    [] t.k = "void"  -> [k |-> "void"]
    [] t.k = "arr"   -> LET n == IF t.len.k = "fixed" THEN t.len.n ELSE 0 IN
                        IF t.elem.k = "char" THEN [k |-> "bytes", b |-> Zeros(n)]
                        ELSE IF t.elem.k = "wchar" THEN [k |-> "str", cps |-> Zeros(n)]
                        ELSE [k |-> "list", items |-> [j \in 1..n |-> ZeroOf(t.elem, m)]]
    [] t.k \in {"struct", "union"} ->
         [k |-> "struct", cls |-> t.name, names |-> [j \in 1..Len(t.fields) |-> t.fields[j].name],
          vals |-> [j \in 1..Len(t.fields) |->
                      IF t.fields[j].bits > 0 /\ t.fields[j].type.k # "enum" THEN IntZero   \* a bit-field is a plain integer
                      ELSE ZeroOf(t.fields[j].type, m)]]

\* byte-wise OR of two equally long byte strings
OrBytes(x, y) == [i \in 1..Len(x) |-> BOr(x[i], y[i])]
PadTo(p, n) == IF Len(p.b) >= n THEN p ELSE Cat(p, Pad(n - Len(p.b)))

RECURSIVE EncX(_, _, _, _, _), EncUnionLargest(_, _, _, _), EncFields(_, _, _, _, _, _, _, _, _), EncList(_, _, _, _, _, _), EncUnion(_, _, _, _, _, _, _)
\* lg = FALSE: the specified meaning.  lg = TRUE: the *known deviation* of the implementation (finding F16): a union is
\* dumped through one member only (the largest named one, an anonymous one only if nothing was written), zero filled.
EncX(t, m, v, pos, lg) ==
  CASE t.k = "int"   -> Full(Endian(IntBytes(v, t.size), m))
    [] t.k = "ptr"   -> Full(Endian(IntBytes(v.addr, m.ptr), m))
    [] t.k = "enum"  -> EncX(t.base, m, v.v, pos, lg)
    [] t.k = "char"  -> Full(v.b)
    [] t.k = "wchar" -> Full(CpsToBytes(v.cps, m))
    [] t.k = "float" -> Full(Endian(Rev(v.bits), m))
    [] t.k = "leb"   -> Full(LebEncode(v, t.signed))
    [] t.k = "void"  -> NoBytes
    [] t.k = "union" -> IF lg THEN EncUnionLargest(t, m, v, pos) ELSE EncUnion(t, m, v, pos, 1, Pad(SizeOf(t, m)), lg)
    [] t.k = "arr" ->
         IF t.elem.k = "char" THEN Full(IF t.len.k = "null" THEN v.b \o << 0 >> ELSE v.b)
         ELSE IF t.elem.k = "wchar" THEN Full(CpsToBytes(v.cps, m) \o (IF t.len.k = "null" THEN << 0, 0 >> ELSE << >>))
         ELSE IF t.len.k = "null" THEN EncList(t.elem, m, Append(v.items, ZeroOf(t.elem, m)), pos, 1, lg)
         ELSE EncList(t.elem, m, v.items, pos, 1, lg)
    [] t.k = "struct" ->
         LET lay == CLayout(t, m)
             body == EncFields(t, m, v, pos, 1, lay, NoBytes, [bits |-> << >>, mask |-> << >>, size |-> 0], lg)
             endp == pos + Len(body.b)
         IN IF Aligned(t, m) THEN Cat(body, Pad(AlignRel(endp, pos, AlignOf(t, m)) - endp)) ELSE body

\* a union's bytes: a bit is data if it is data in any member; coherent member values agree on shared bits
EncUnion(t, m, v, pos, j, acc, lg) ==
  IF j > Len(t.fields) THEN acc
  ELSE LET p == PadTo(EncX(t.fields[j].type, m, v.vals[j], pos, lg), Len(acc.b))
       IN EncUnion(t, m, v, pos, j + 1, [b |-> OrBytes(acc.b, p.b), k |-> OrBytes(acc.k, p.k)], lg)

\* the implementation's choice: members sorted by static size, largest first (stable); anonymous structure members are
\* skipped, the first remaining member is written; if nothing was written the last skipped anonymous member is
EncUnionLargest(t, m, v, pos) ==
  LET n == Len(t.fields)
      sz(j) == LET s == SizeOf(t.fields[j].type, m) IN IF s = Dyn THEN 0 ELSE s
      IsAnon(j) == t.fields[j].anon /\ t.fields[j].type.k \in {"struct", "union"}
      Before(a, b) == sz(a) > sz(b) \/ (sz(a) = sz(b) /\ a < b)      \* position in the sorted order
      named == {j \in 1..n : ~IsAnon(j)}
      first == IF named = {} THEN 0 ELSE CHOOSE j \in named : \A j2 \in named : j2 = j \/ Before(j, j2)
      \* anonymous members seen before the loop breaks at `first`
      seen == {j \in 1..n : IsAnon(j) /\ (first = 0 \/ Before(j, first))}
      lastanon == IF seen = {} THEN 0 ELSE CHOOSE j \in seen : \A j2 \in seen : j2 = j \/ Before(j2, j)
      w1 == IF first = 0 THEN NoBytes ELSE EncX(t.fields[first].type, m, v.vals[first], pos, TRUE)
      w2 == IF Len(w1.b) = 0 /\ lastanon # 0 THEN EncX(t.fields[lastanon].type, m, v.vals[lastanon], pos, TRUE) ELSE w1
  IN PadTo(w2, SizeOf(t, m))

EncList(e, m, items, pos, i, lg) ==
  IF i > Len(items) THEN NoBytes
  ELSE LET p == EncX(e, m, items[i], pos, lg) IN Cat(p, EncList(e, m, items, pos + Len(p.b), i + 1, lg))

\* bu: pending storage unit [bits, mask (LSB first of the unit integer), size]
FlushUnit(bu, m) == IF bu.size = 0 THEN NoBytes
                    ELSE [b |-> Endian(BitsToBytes(bu.bits), m), k |-> Endian(BitsToBytes(bu.mask), m)]
EncFields(t, m, v, start, i, lay, out, bu, lg) ==
  IF i > Len(t.fields) THEN Cat(out, FlushUnit(bu, m))
  ELSE LET f == t.fields[i]
           val == v.vals[i]
           a == IF Aligned(t, m) THEN AlignOf(f.type, m) ELSE 1
           o == lay.offs[i]
       IN IF f.bits > 0
          THEN LET stg == Storage(f.type)
                   fresh == o # Cont
                   out1 == IF fresh THEN Cat(out, FlushUnit(bu, m)) ELSE out
                   cur == start + Len(out1.b)
                   target == IF ~fresh THEN cur ELSE IF o >= 0 THEN start + o ELSE AlignRel(cur, start, a)
                   out2 == Cat(out1, Pad(target - cur))
                   total == 8 * stg.size
                   unit0 == IF fresh THEN Zeros(total) ELSE bu.bits
                   mask0 == IF fresh THEN Zeros(total) ELSE bu.mask
                   used == lay.bitpos[i]
                   raw == IF f.type.k = "enum" THEN val.v ELSE val
                   vb == BytesToBits(MagToLE(raw.mag, stg.size))
                   lo == IF m.endian = "<" THEN used ELSE total - used - f.bits
                   unit1 == [j \in 1..total |-> IF j > lo /\ j <= lo + f.bits THEN vb[j - lo] ELSE unit0[j]]
                   mask1 == [j \in 1..total |-> IF j > lo /\ j <= lo + f.bits THEN 1 ELSE mask0[j]]
               IN EncFields(t, m, v, start, i + 1, lay, out2, [bits |-> unit1, mask |-> mask1, size |-> stg.size], lg)
          ELSE LET out1 == Cat(out, FlushUnit(bu, m))
                   cur == start + Len(out1.b)
                   target == IF o >= 0 THEN start + o ELSE AlignRel(cur, start, a)
                   out2 == Cat(out1, Pad(target - cur))
               IN EncFields(t, m, v, start, i + 1, lay, Cat(out2, EncX(f.type, m, val, target, lg)),
                            [bits |-> << >>, mask |-> << >>, size |-> 0], lg)

Enc(t, m, v, pos) == EncX(t, m, v, pos, FALSE)
Encode(t, m, v) == Enc(t, m, v, 0).b
EncodeKnownDeviation(t, m, v) == EncX(t, m, v, 0, TRUE).b

\* bit-wise AND of input bytes with a mask
AndBytes(x, k) == [i \in 1..Len(x) |-> BAnd(x[i], k[i])]

-----------------------------------------------------------------------------
\* Can v be written as a t without altering a number?  (C01: otherwise the write must be refused.)
FitsBits(v, bits) == ~v.neg /\ LET bl == BytesToBits(v.mag) IN \A j \in 1..Len(bl) : j > bits => bl[j] = 0
RECURSIVE Fits(_, _, _)
Fits(t, m, v) ==
  CASE t.k = "int"  -> v.k = "int" /\ FitsInt(v, t.size, t.signed)
    [] t.k = "enum" -> FitsInt(v.v, t.base.size, t.base.signed)
    [] t.k = "ptr"  -> FitsInt(v.addr, m.ptr, FALSE)
    [] t.k = "leb"  -> t.signed \/ ~v.neg \/ v.mag = << >>
    [] t.k = "arr"  -> IF t.elem.k \in {"char", "wchar"} THEN TRUE
                       ELSE /\ (t.len.k = "fixed" /\ SizeOf(t, m) # Dyn => Len(v.items) = t.len.n)
                            /\ \A j \in 1..Len(v.items) : Fits(t.elem, m, v.items[j])
    [] t.k \in {"struct", "union"} ->
         \A j \in 1..Len(t.fields) :
            \* a bit-field holds the integers of its width: [0, 2^bits) whatever the storage type (C06; finding F36)
            IF t.fields[j].bits > 0
            THEN FitsBits(IF t.fields[j].type.k = "enum" THEN v.vals[j].v ELSE v.vals[j], t.fields[j].bits)
            ELSE Fits(t.fields[j].type, m, v.vals[j])
    [] OTHER -> TRUE

\* does t contain a to-end-of-stream array?  (its extent is the end of input by definition)
RECURSIVE HasEof(_)
HasEof(t) == CASE t.k = "arr" -> t.len.k = "eof" \/ HasEof(t.elem)
               [] t.k \in {"struct", "union"} -> \E i \in 1..Len(t.fields) : HasEof(t.fields[i].type)
               [] OTHER -> FALSE

\* is the writer defined for t at all?  (dynamic unions cannot be written)
RECURSIVE Writable(_, _)
Writable(t, m) ==
  CASE t.k = "union" -> SizeOf(t, m) # Dyn /\ \A j \in 1..Len(t.fields) : Writable(t.fields[j].type, m)
    [] t.k = "struct" -> \A j \in 1..Len(t.fields) : Writable(t.fields[j].type, m)
    [] t.k = "arr" -> Writable(t.elem, m)
    [] OTHER -> TRUE
=============================================================================
