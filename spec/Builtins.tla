------------------------------ MODULE Builtins ------------------------------
(***************************************************************************)
(* What every built-in type name of a cstruct object denotes, written from *)
(* the meaning of the name in C / <stdint.h> / the Windows SDK / IDA, not  *)
(* from the table in cstruct.py.  Sizes in bytes; alignment = size except  *)
(* for the odd widths (3 -> 4, 6 -> 8 bytes).                              *)
(***************************************************************************)
EXTENDS Layout

I(name, size, signed) == [k |-> "int", name |-> name, size |-> size, signed |-> signed,
                          align |-> IF size = 3 THEN 4 ELSE IF size = 6 THEN 8 ELSE size]
F(size) == [k |-> "float", size |-> size]

Int8 == I("int8", 1, TRUE)      Uint8 == I("uint8", 1, FALSE)
Int16 == I("int16", 2, TRUE)    Uint16 == I("uint16", 2, FALSE)
Int32 == I("int32", 4, TRUE)    Uint32 == I("uint32", 4, FALSE)
Int64 == I("int64", 8, TRUE)    Uint64 == I("uint64", 8, FALSE)
Int128 == I("int128", 16, TRUE) Uint128 == I("uint128", 16, FALSE)
CharT == [k |-> "char"]  WcharT == [k |-> "wchar"]

BuiltinTable == <<
  \* internal names
  <<"int8", Int8>>, <<"uint8", Uint8>>, <<"int16", Int16>>, <<"uint16", Uint16>>, <<"int32", Int32>>, <<"uint32", Uint32>>,
  <<"int64", Int64>>, <<"uint64", Uint64>>, <<"float16", F(2)>>, <<"float", F(4)>>, <<"double", F(8)>>,
  <<"char", CharT>>, <<"wchar", WcharT>>,
  <<"int24", I("int24", 3, TRUE)>>, <<"uint24", I("uint24", 3, FALSE)>>, <<"int48", I("int48", 6, TRUE)>>, <<"uint48", I("uint48", 6, FALSE)>>,
  <<"int128", Int128>>, <<"uint128", Uint128>>,
  <<"uleb128", [k |-> "leb", signed |-> FALSE]>>, <<"ileb128", [k |-> "leb", signed |-> TRUE]>>, <<"void", [k |-> "void"]>>,
  \* C
  <<"signed char", Int8>>, <<"unsigned char", CharT>>, <<"short", Int16>>, <<"signed short", Int16>>, <<"unsigned short", Uint16>>,
  <<"int", Int32>>, <<"signed int", Int32>>, <<"unsigned int", Uint32>>, <<"long", Int32>>, <<"signed long", Int32>>,
  <<"unsigned long", Uint32>>, <<"long long", Int64>>, <<"signed long long", Int64>>, <<"unsigned long long", Uint64>>,
  \* Windows
  <<"BYTE", Uint8>>, <<"CHAR", CharT>>, <<"SHORT", Int16>>, <<"WORD", Uint16>>, <<"DWORD", Uint32>>, <<"LONG", Int32>>,
  <<"LONG32", Int32>>, <<"LONG64", Int64>>, <<"LONGLONG", Int64>>, <<"QWORD", Uint64>>, <<"OWORD", Uint128>>, <<"WCHAR", WcharT>>,
  <<"UCHAR", Uint8>>, <<"USHORT", Uint16>>, <<"ULONG", Uint32>>, <<"ULONG64", Uint64>>, <<"ULONGLONG", Uint64>>,
  <<"INT", Int32>>, <<"INT8", Int8>>, <<"INT16", Int16>>, <<"INT32", Int32>>, <<"INT64", Int64>>, <<"INT128", Int128>>,
  <<"UINT", Uint32>>, <<"UINT8", Uint8>>, <<"UINT16", Uint16>>, <<"UINT32", Uint32>>, <<"UINT64", Uint64>>, <<"UINT128", Uint128>>,
  <<"__int8", Int8>>, <<"__int16", Int16>>, <<"__int32", Int32>>, <<"__int64", Int64>>, <<"__int128", Int128>>,
  <<"unsigned __int8", Uint8>>, <<"unsigned __int16", Uint16>>, <<"unsigned __int32", Uint32>>, <<"unsigned __int64", Uint64>>,
  <<"unsigned __int128", Uint128>>, <<"wchar_t", WcharT>>,
  \* <stdint.h>
  <<"int8_t", Int8>>, <<"int16_t", Int16>>, <<"int32_t", Int32>>, <<"int64_t", Int64>>, <<"int128_t", Int128>>,
  <<"uint8_t", Uint8>>, <<"uint16_t", Uint16>>, <<"uint32_t", Uint32>>, <<"uint64_t", Uint64>>, <<"uint128_t", Uint128>>,
  \* IDA
  <<"_BYTE", Uint8>>, <<"_WORD", Uint16>>, <<"_DWORD", Uint32>>, <<"_QWORD", Uint64>>, <<"_OWORD", Uint128>>,
  \* width-named conveniences (uN = N bytes, __uN = N bits)
  <<"u1", Uint8>>, <<"u2", Uint16>>, <<"u4", Uint32>>, <<"u8", Uint64>>, <<"u16", Uint128>>,
  <<"__u8", Uint8>>, <<"__u16", Uint16>>, <<"__u32", Uint32>>, <<"__u64", Uint64>>,
  <<"uchar", Uint8>>, <<"ushort", Uint16>>, <<"uint", Uint32>>, <<"ulong", Uint32>> >>

BuiltinNames == {BuiltinTable[i][1] : i \in 1..Len(BuiltinTable)}
Builtin(name) == BuiltinTable[CHOOSE i \in 1..Len(BuiltinTable) : BuiltinTable[i][1] = name][2]
=============================================================================
