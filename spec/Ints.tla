------------------------------- MODULE Ints -------------------------------
(***************************************************************************)
(* Arithmetic kernel of the dissect.cstruct specification.                 *)
(*                                                                         *)
(* TLC integers are 32 bit, field values are not (128-bit fields, 64-bit   *)
(* bit-field units, LEB128 of any length).  An *integer value* therefore   *)
(* is the record  [k |-> "int", neg |-> BOOLEAN, mag |-> limbs]  where     *)
(* `mag` is the magnitude in little-endian base 256 without trailing       *)
(* zeros.  Bit strings are sequences over {0,1}, least significant first.  *)
(* TLC integers are used for sizes, offsets, counts and (range guarded)    *)
(* expression values only.                                                 *)
(***************************************************************************)
EXTENDS Integers, Sequences, FiniteSets

Max2(a, b) == IF a > b THEN a ELSE b
Min2(a, b) == IF a < b THEN a ELSE b

\* next multiple of a (a >= 1) at or above o
AlignUp(o, a) == o + ((a - (o % a)) % a)
\* alignment inside a structure is relative to the structure's first byte (as its field offsets are), wherever that is in the stream
AlignRel(p, start, a) == start + AlignUp(p - start, a)

SetMax(S) == CHOOSE x \in S : \A y \in S : y <= x
SetMin(S) == CHOOSE x \in S : \A y \in S : x <= y

Zeros(n) == [i \in 1..n |-> 0]
Rev(s) == [i \in 1..Len(s) |-> s[Len(s) + 1 - i]]
Slice(inp, pos, n) == SubSeq(inp, pos + 1, pos + n)   \* n bytes at 0-based pos

RECURSIVE StripZeros(_)
StripZeros(s) == IF Len(s) > 0 /\ s[Len(s)] = 0 THEN StripZeros(SubSeq(s, 1, Len(s) - 1)) ELSE s

\* two's complement negation of a little-endian limb string of fixed width
RECURSIVE NegLimbs(_, _, _)
NegLimbs(s, i, carry) ==
  IF i > Len(s) THEN << >>
  ELSE LET x == (255 - s[i]) + carry IN << x % 256 >> \o NegLimbs(s, i + 1, x \div 256)

\* value of the little-endian byte string `le` read as (un)signed two's complement
IntVal(le, signed) ==
  IF signed /\ Len(le) > 0 /\ le[Len(le)] >= 128
  THEN [k |-> "int", neg |-> TRUE,  mag |-> StripZeros(NegLimbs(le, 1, 1))]
  ELSE [k |-> "int", neg |-> FALSE, mag |-> StripZeros(le)]

IntZero == [k |-> "int", neg |-> FALSE, mag |-> << >>]
IsIntZero(v) == v.mag = << >>

RECURSIVE LimbsToNat(_)
LimbsToNat(s) == IF Len(s) = 0 THEN 0 ELSE s[1] + 256 * LimbsToNat(Tail(s))
\* only for values known to be small (array lengths, expression operands); guarded by SmallInt
SmallInt(v) == Len(v.mag) <= 3
ToInt(v) == IF v.neg THEN -LimbsToNat(v.mag) ELSE LimbsToNat(v.mag)

RECURSIVE NatToLimbs(_)
NatToLimbs(n) == IF n = 0 THEN << >> ELSE << n % 256 >> \o NatToLimbs(n \div 256)
FromInt(n) == IF n < 0 THEN [k |-> "int", neg |-> TRUE, mag |-> NatToLimbs(-n)]
              ELSE [k |-> "int", neg |-> FALSE, mag |-> NatToLimbs(n)]

\* magnitude limbs padded / cut to exactly w limbs
RECURSIVE MagToLE(_, _)
MagToLE(mag, w) ==
  IF w = 0 THEN << >>
  ELSE << (IF Len(mag) > 0 THEN mag[1] ELSE 0) >> \o MagToLE(IF Len(mag) > 0 THEN Tail(mag) ELSE mag, w - 1)

\* little-endian two's complement image of v in w bytes (meaningful only if FitsInt)
IntBytes(v, w) == IF v.neg THEN NegLimbs(MagToLE(v.mag, w), 1, 1) ELSE MagToLE(v.mag, w)

\* does v fit a w-byte (un)signed field?   unsigned: 0 <= v < 256^w ; signed: -2^(8w-1) <= v < 2^(8w-1)
IsPow2Top(mag, w) == Len(mag) = w /\ mag[w] = 128 /\ \A i \in 1..(w - 1) : mag[i] = 0
FitsInt(v, w, signed) ==
  IF ~signed THEN (~v.neg \/ v.mag = << >>) /\ Len(v.mag) <= w
  ELSE IF w = 0 THEN v.mag = << >>
  ELSE IF v.neg THEN Len(v.mag) < w \/ (Len(v.mag) = w /\ (v.mag[w] < 128 \/ IsPow2Top(v.mag, w)))
  ELSE Len(v.mag) < w \/ (Len(v.mag) = w /\ v.mag[w] < 128)

\* ---- bits (LSB first) -------------------------------------------------
RECURSIVE BytesToBits(_)
BytesToBits(le) ==
  IF Len(le) = 0 THEN << >>
  ELSE [i \in 1..8 |-> (le[1] \div (2^(i-1))) % 2] \o BytesToBits(Tail(le))

RECURSIVE BitsToBytes(_)
BitsToBytes(bits) ==
  IF Len(bits) = 0 THEN << >>
  ELSE << bits[1] + 2*bits[2] + 4*bits[3] + 8*bits[4] + 16*bits[5] + 32*bits[6] + 64*bits[7] + 128*bits[8] >>
       \o BitsToBytes(SubSeq(bits, 9, Len(bits)))
PadBits(bits) == bits \o Zeros((8 - (Len(bits) % 8)) % 8)

\* ---- bitwise operators on (small) TLC integers, two's complement semantics over unbounded ints ----
RECURSIVE BAnd(_, _), BOr(_, _), BXor(_, _)
BAnd(a, b) == IF a = 0 \/ b = 0 THEN 0 ELSE IF a = -1 THEN b ELSE IF b = -1 THEN a
              ELSE ((a % 2) * (b % 2)) + 2 * BAnd(a \div 2, b \div 2)
BOr(a, b)  == IF a = 0 THEN b ELSE IF b = 0 THEN a ELSE IF a = -1 \/ b = -1 THEN -1
              ELSE (IF (a % 2) + (b % 2) > 0 THEN 1 ELSE 0) + 2 * BOr(a \div 2, b \div 2)
BXor(a, b) == IF a = 0 THEN b ELSE IF b = 0 THEN a ELSE IF a = -1 THEN (-b) - 1 ELSE IF b = -1 THEN (-a) - 1
              ELSE (((a % 2) + (b % 2)) % 2) + 2 * BXor(a \div 2, b \div 2)
=============================================================================
