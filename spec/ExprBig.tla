------------------------------ MODULE ExprBig ------------------------------
(***************************************************************************)
(* The grammar of module ExprGrammar evaluated over UNBOUNDED integers     *)
(* (module BigInt): same lexical rules, same productions, values are limb  *)
(* records.  C10 says "over unbounded integers"; ExprGrammar.Meaning works *)
(* on range-guarded TLC integers (and is what the evaluator machine of     *)
(* MC_Expr is proved equal to), BigMeaning is the same meaning without the *)
(* guard.  Where both are defined they agree (checked on every recorded    *)
(* expression, clause SPECBUG:big-vs-small).                               *)
(*   env = [ctx, consts : sequences of <<name codes, limb value>>,         *)
(*          sizes : sequence of <<name codes, TLC integer>>]               *)
(***************************************************************************)
EXTENDS ExprGrammar, BigInt

BTokN(v) == [t |-> "n", v |-> v, s |-> << >>]

RECURSIVE BDigits(_, _, _, _)
BDigits(s, i, b, acc) ==       \* acc: magnitude limbs
  IF i <= Len(s) /\ HexVal(s[i]) >= 0 /\ HexVal(s[i]) < b
  THEN BDigits(s, i + 1, b, MAdd(MMulSmall(acc, b), NatToLimbs(HexVal(s[i]))))
  ELSE [v |-> Mk(FALSE, acc), i |-> i]

RECURSIVE BLex(_, _, _)
BLex(s, i, acc) ==
  IF i > Len(s) THEN [ok |-> TRUE, toks |-> acc]
  ELSE LET c == s[i]
           c2 == IF i + 1 <= Len(s) THEN s[i + 1] ELSE 0
       IN IF IsSpace(c) THEN BLex(s, i + 1, acc)
          ELSE IF IsDigit(c)
          THEN LET lit == IF c = 48 /\ (c2 = 120 \/ c2 = 88) THEN BDigits(s, i + 2, 16, << >>)
                          ELSE IF c = 48 /\ (c2 = 98 \/ c2 = 66) THEN BDigits(s, i + 2, 2, << >>)
                          ELSE IF c = 48 THEN BDigits(s, i + 1, 8, << >>)
                          ELSE BDigits(s, i, 10, << >>)
                   prefixed == c = 48 /\ c2 \in {120, 88, 98, 66}
               IN IF prefixed /\ lit.i = i + 2 THEN [ok |-> FALSE, toks |-> acc]
                  ELSE BLex(s, SuffixEnd(s, lit.i), Append(acc, BTokN(lit.v)))
          ELSE IF IsAlpha(c)
          THEN LET e == IdentEnd(s, i)
                   name == SubSeq(s, i, e - 1)
               IN BLex(s, e, Append(acc, IF name = Sizeof THEN TokO("sizeof") ELSE TokI(name)))
          ELSE IF c = 60 /\ c2 = 60 THEN BLex(s, i + 2, Append(acc, TokO("<<")))
          ELSE IF c = 62 /\ c2 = 62 THEN BLex(s, i + 2, Append(acc, TokO(">>")))
          ELSE IF c \in {42, 47, 37, 43, 45, 38, 94, 124, 126, 40, 41}
          THEN BLex(s, i + 1, Append(acc, TokO(CASE c = 42 -> "*" [] c = 47 -> "/" [] c = 37 -> "%" [] c = 43 -> "+" [] c = 45 -> "-"
                                                  [] c = 38 -> "&" [] c = 94 -> "^" [] c = 124 -> "|" [] c = 126 -> "~"
                                                  [] c = 40 -> "(" [] c = 41 -> ")")))
          ELSE [ok |-> FALSE, toks |-> acc]

BLookup(m, name) == LET S == {j \in 1..Len(m) : m[j][1] = name} IN IF S = {} THEN Undef ELSE m[SetMax(S)][2]
BResolve(env, name) == LET a == BLookup(env.ctx, name) IN IF IsDef(a) THEN a ELSE BLookup(env.consts, name)

BErr == [ok |-> FALSE, v |-> Undef, i |-> 0]
RECURSIVE BPLevel(_, _, _, _), BPTail(_, _, _, _, _), BPUnary(_, _, _), BPPrimary(_, _, _)
BPLevel(toks, i, env, lv) ==
  IF lv > Len(Levels) THEN BPUnary(toks, i, env)
  ELSE LET l == BPLevel(toks, i, env, lv + 1) IN IF ~l.ok THEN BErr ELSE BPTail(toks, l.i, env, lv, l.v)
BPTail(toks, i, env, lv, acc) ==
  IF IsOp(toks, i, Levels[lv])
  THEN LET r == BPLevel(toks, i + 1, env, lv + 1) IN
       IF ~r.ok THEN BErr ELSE BPTail(toks, r.i, env, lv, BApplyBin(toks[i].s, acc, r.v))
  ELSE [ok |-> TRUE, v |-> acc, i |-> i]
BPUnary(toks, i, env) ==
  IF IsOp(toks, i, {"-", "~"})
  THEN LET r == BPUnary(toks, i + 1, env) IN
       IF ~r.ok THEN BErr ELSE [ok |-> TRUE, v |-> BApplyUn(toks[i].s, r.v), i |-> r.i]
  ELSE BPPrimary(toks, i, env)
BPPrimary(toks, i, env) ==
  IF i > Len(toks) THEN BErr
  ELSE LET k == toks[i] IN
       IF k.t = "n" THEN [ok |-> TRUE, v |-> k.v, i |-> i + 1]
       ELSE IF k.t = "i" THEN [ok |-> TRUE, v |-> BResolve(env, k.s), i |-> i + 1]
       ELSE IF k.s = "(" THEN LET r == BPLevel(toks, i + 1, env, 1) IN
                              IF r.ok /\ IsOp(toks, r.i, {")"}) THEN [r EXCEPT !.i = r.i + 1] ELSE BErr
       ELSE IF k.s = "sizeof" THEN
            LET e == WordsEnd(toks, i + 2) IN
            IF IsOp(toks, i + 1, {"("}) /\ e > i + 2 /\ IsOp(toks, e, {")"})
            THEN LET sz == Lookup(env.sizes, JoinWords(toks, i + 2, e - 1)) IN
                 [ok |-> TRUE, v |-> IF sz = XX THEN Undef ELSE FromInt(sz), i |-> e + 1]
            ELSE BErr
       ELSE BErr

\* [wf, v]: v is a limb value, or Undef outside the domain (division of / by negatives, negative or huge shift counts, unbound names)
BigMeaning(text, env) ==
  LET lx == BLex(text, 1, << >>) IN
  IF ~lx.ok THEN [wf |-> FALSE, v |-> Undef]
  ELSE LET p == BPLevel(lx.toks, 1, env, 1) IN
       IF p.ok /\ p.i = Len(lx.toks) + 1 THEN [wf |-> TRUE, v |-> p.v] ELSE [wf |-> FALSE, v |-> Undef]
=============================================================================
