------------------------------- MODULE PtrSpec -------------------------------
(***************************************************************************)
(* C16: what a pointer value is and does.                                  *)
(* A pointer is [addr, target]; it lives on a stream (content, position).  *)
(*   Deref:  addr = 0 or no stream      -> "null" (dedicated error)        *)
(*           otherwise                   -> Decode(target, content, addr); *)
(*           a char target is a NUL-terminated string; the stream position *)
(*           is the same before and after, whether or not it succeeds      *)
(*   Arith(op, n): a pointer of the same type on the same stream with      *)
(*           address addr op n                                             *)
(*   Dump:   the address, as the unsigned integer of the configured width  *)
(***************************************************************************)
EXTENDS Codec

CharString == [k |-> "arr", elem |-> [k |-> "char"], len |-> [k |-> "null"]]
DerefType(target) == IF target.k = "char" THEN CharString ELSE target

\* outcome of a dereference: [status \in {"ok","null","eof","decode"}, v]
Deref(addrval, target, m, content, hasStream, consts) ==
  IF ~hasStream \/ IsIntZero(addrval) THEN [status |-> "null", v |-> NoVal]
  ELSE IF ~SmallInt(addrval) \/ ToInt(addrval) > Len(content) THEN [status |-> "eof", v |-> NoVal]   \* far beyond the stream
  ELSE LET r == Decode(DerefType(target), m, content, ToInt(addrval), << >>, consts) IN
       IF r.ok THEN [status |-> "ok", v |-> r.v] ELSE [status |-> IF r.err = "decode" THEN "decode" ELSE "eof", v |-> NoVal]

ArithAddr(op, a, n) ==
  CASE op = "+" -> a + n [] op = "-" -> a - n [] op = "*" -> a * n [] op = "//" -> a \div n [] op = "%" -> a % n
    [] op = "<<" -> a * (2 ^ n) [] op = ">>" -> a \div (2 ^ n) [] op = "&" -> BAnd(a, n) [] op = "|" -> BOr(a, n) [] op = "^" -> BXor(a, n)
=============================================================================
