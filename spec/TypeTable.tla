------------------------------ MODULE TypeTable ------------------------------
(***************************************************************************)
(* C13: the name table of a cstruct object.  An entry maps a name to a     *)
(* type (a record [t |-> "type", id |-> ...]) or to another name (an       *)
(* alias, [t |-> "name", id |-> ...]).                                     *)
(*   Resolve(tab, n)  follows aliases; the result is the type, or          *)
(*                    "ResolveError" when a name is unknown, the chain is  *)
(*                    cyclic, or longer than the hop bound (an acyclic     *)
(*                    chain longer than the bound may raise - it never     *)
(*                    binds to something else)                             *)
(*   AddType(tab, n, target, replace)  re-declaring a name is accepted     *)
(*                    only for the same target                             *)
(* Names and type identities are small integers here (the harness maps     *)
(* real names / classes to them).                                          *)
(***************************************************************************)
EXTENDS Integers, Sequences, FiniteSets

HopBound == 10
NoType == [t |-> "error", id |-> 0]
IsType(x) == x.t = "type"

\* declarative meaning: the type at the end of the alias chain starting at name n, if the chain is well founded
RECURSIVE Chase(_, _, _)
Chase(tab, n, seen) ==
  IF n \notin DOMAIN tab \/ n \in seen THEN NoType
  ELSE IF IsType(tab[n]) THEN tab[n] ELSE Chase(tab, tab[n].id, seen \cup {n})
Meaning(tab, n) == Chase(tab, n, {})

RECURSIVE ChainLen(_, _, _)
ChainLen(tab, n, seen) == IF n \notin DOMAIN tab \/ n \in seen \/ IsType(tab[n]) THEN 1 ELSE 1 + ChainLen(tab, tab[n].id, seen \cup {n})

\* the implementation's loop: at most HopBound look-ups ("for _ in range(10)")
RECURSIVE ResolveLoop(_, _, _)
ResolveLoop(tab, n, hops) ==
  IF hops = 0 THEN NoType
  ELSE IF n \notin DOMAIN tab THEN NoType
  ELSE IF IsType(tab[n]) THEN tab[n] ELSE ResolveLoop(tab, tab[n].id, hops - 1)
Resolve(tab, x) == IF IsType(x) THEN x ELSE ResolveLoop(tab, x.id, HopBound)

\* add_type: [ok, tab]
AddType(tab, n, target, replace) ==
  IF ~replace /\ n \in DOMAIN tab
     /\ (~IsType(Resolve(tab, tab[n])) \/ ~IsType(Resolve(tab, target)) \/ Resolve(tab, tab[n]) # Resolve(tab, target))
  THEN [ok |-> FALSE, tab |-> tab]
  ELSE [ok |-> TRUE, tab |-> [m \in DOMAIN tab \cup {n} |-> IF m = n THEN target ELSE tab[m]]]
=============================================================================
