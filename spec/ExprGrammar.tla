---------------------------- MODULE ExprGrammar ----------------------------
(***************************************************************************)
(* The meaning of an expression TEXT as property C10 states it: the C      *)
(* grammar for integer constant expressions,                               *)
(*                                                                         *)
(*   or    := xor   { '|' xor }                                            *)
(*   xor   := and   { '^' and }                                            *)
(*   and   := shift { '&' shift }                                          *)
(*   shift := add   { ('<<' | '>>') add }                                  *)
(*   add   := mul   { ('+' | '-') mul }                                    *)
(*   mul   := unary { ('*' | '/' | '%') unary }                            *)
(*   unary := ('-' | '~') unary | primary                                  *)
(*   primary := number | identifier | '(' or ')' | 'sizeof' '(' name+ ')'  *)
(*              (a type name may have several words: unsigned long)        *)
(*                                                                         *)
(* with all binary operators left associative, evaluated over unbounded    *)
(* integers (range-guarded here), numbers in decimal / 0x hex / 0 octal /  *)
(* 0b binary with optional u/l suffixes, identifiers resolved in the field *)
(* context first and then in the constants.  This module is written from   *)
(* the C standard's grammar, not from expression.py; the shunting-yard     *)
(* evaluator of the code is modelled in MC_Expr.tla and proved equal.      *)
(*                                                                         *)
(* Text = sequence of character codes.  Tokens are uniformly shaped:       *)
(*   [t |-> "n", v |-> int, s |-> ""]  number                              *)
(*   [t |-> "i", v |-> 0,   s |-> name] identifier (s is a code sequence   *)
(*                                       rendered as a string by the lexer)*)
(*   [t |-> "o", v |-> 0,   s |-> sym]  operator / parenthesis / "sizeof"  *)
(***************************************************************************)
EXTENDS ExprAst

TokN(v) == [t |-> "n", v |-> v, s |-> << >>]
TokI(s) == [t |-> "i", v |-> 0, s |-> s]
TokO(s) == [t |-> "o", v |-> 0, s |-> s]

\* ---- character classes (ASCII codes)
IsDigit(c) == c >= 48 /\ c <= 57
IsAlpha(c) == (c >= 65 /\ c <= 90) \/ (c >= 97 /\ c <= 122) \/ c = 95
IsAlnum(c) == IsDigit(c) \/ IsAlpha(c)
IsSpace(c) == c = 32 \/ c = 9
HexVal(c) == IF IsDigit(c) THEN c - 48 ELSE IF c >= 97 /\ c <= 102 THEN c - 87 ELSE IF c >= 65 /\ c <= 70 THEN c - 55 ELSE -1
IsU(c) == c = 117 \/ c = 85
IsL(c) == c = 108 \/ c = 76
Sizeof == <<115, 105, 122, 101, 111, 102>>

\* digits of base b from position i: [v, i]   (v = XX when it leaves the guarded range)
RECURSIVE Digits(_, _, _, _)
Digits(s, i, b, acc) ==
  IF i <= Len(s) /\ HexVal(s[i]) >= 0 /\ HexVal(s[i]) < b
  THEN Digits(s, i + 1, b, IF acc = XX \/ Big(acc * b + HexVal(s[i])) THEN XX ELSE acc * b + HexVal(s[i]))
  ELSE [v |-> acc, i |-> i]

\* integer suffix: u | ul | ull | l | ll | lu | llu  (any case)
SuffixEnd(s, i) ==
  LET c(k) == IF k <= Len(s) THEN s[k] ELSE 0 IN
  IF IsU(c(i)) THEN (IF IsL(c(i + 1)) THEN (IF IsL(c(i + 2)) THEN i + 3 ELSE i + 2) ELSE i + 1)
  ELSE IF IsL(c(i)) THEN (IF IsL(c(i + 1)) THEN (IF IsU(c(i + 2)) THEN i + 3 ELSE i + 2) ELSE IF IsU(c(i + 1)) THEN i + 2 ELSE i + 1)
  ELSE i

RECURSIVE IdentEnd(_, _)
IdentEnd(s, i) == IF i <= Len(s) /\ IsAlnum(s[i]) THEN IdentEnd(s, i + 1) ELSE i

\* Lex: [ok, toks]
RECURSIVE Lex(_, _, _)
Lex(s, i, acc) ==
  IF i > Len(s) THEN [ok |-> TRUE, toks |-> acc]
  ELSE LET c == s[i]
           c2 == IF i + 1 <= Len(s) THEN s[i + 1] ELSE 0
       IN IF IsSpace(c) THEN Lex(s, i + 1, acc)
          ELSE IF IsDigit(c)
          THEN LET lit == IF c = 48 /\ (c2 = 120 \/ c2 = 88) THEN Digits(s, i + 2, 16, 0)          \* 0x
                          ELSE IF c = 48 /\ (c2 = 98 \/ c2 = 66) THEN Digits(s, i + 2, 2, 0)      \* 0b
                          ELSE IF c = 48 THEN Digits(s, i + 1, 8, 0)                               \* octal (also plain 0)
                          ELSE Digits(s, i, 10, 0)
                   prefixed == c = 48 /\ c2 \in {120, 88, 98, 66}
               IN IF prefixed /\ lit.i = i + 2 THEN [ok |-> FALSE, toks |-> acc]                 \* "0x" without digits
                  ELSE Lex(s, SuffixEnd(s, lit.i), Append(acc, TokN(lit.v)))
          ELSE IF IsAlpha(c)
          THEN LET e == IdentEnd(s, i)
                   name == SubSeq(s, i, e - 1)
               IN Lex(s, e, Append(acc, IF name = Sizeof THEN TokO("sizeof") ELSE TokI(name)))
          ELSE IF c = 60 /\ c2 = 60 THEN Lex(s, i + 2, Append(acc, TokO("<<")))
          ELSE IF c = 62 /\ c2 = 62 THEN Lex(s, i + 2, Append(acc, TokO(">>")))
          ELSE IF c = 42 THEN Lex(s, i + 1, Append(acc, TokO("*")))
          ELSE IF c = 47 THEN Lex(s, i + 1, Append(acc, TokO("/")))
          ELSE IF c = 37 THEN Lex(s, i + 1, Append(acc, TokO("%")))
          ELSE IF c = 43 THEN Lex(s, i + 1, Append(acc, TokO("+")))
          ELSE IF c = 45 THEN Lex(s, i + 1, Append(acc, TokO("-")))
          ELSE IF c = 38 THEN Lex(s, i + 1, Append(acc, TokO("&")))
          ELSE IF c = 94 THEN Lex(s, i + 1, Append(acc, TokO("^")))
          ELSE IF c = 124 THEN Lex(s, i + 1, Append(acc, TokO("|")))
          ELSE IF c = 126 THEN Lex(s, i + 1, Append(acc, TokO("~")))
          ELSE IF c = 40 THEN Lex(s, i + 1, Append(acc, TokO("(")))
          ELSE IF c = 41 THEN Lex(s, i + 1, Append(acc, TokO(")")))
          ELSE [ok |-> FALSE, toks |-> acc]

-----------------------------------------------------------------------------
\* Parser / evaluator.  env = [ctx, consts, sizes]: name (code sequence) -> integer maps given as sequences of <<name, value>>.
Lookup(m, name) == LET S == {j \in 1..Len(m) : m[j][1] = name} IN IF S = {} THEN XX ELSE m[SetMax(S)][2]
Resolve(env, name) == LET a == Lookup(env.ctx, name) IN IF a # XX THEN a ELSE Lookup(env.consts, name)

\* result of a sub-parse: [ok, v, i]   (i = index of the next unread token)
PErr == [ok |-> FALSE, v |-> 0, i |-> 0]
IsOp(toks, i, ops) == i <= Len(toks) /\ toks[i].t = "o" /\ toks[i].s \in ops

BinVal(o, a, b) == IF a = XX \/ b = XX THEN XX
                   ELSE IF ~BinDefined(o, a, b) THEN XX
                   ELSE LET r == ApplyBin(o, a, b) IN IF Big(r) THEN XX ELSE r

\* a run of identifier tokens (the words of a type name) and its spelling with single spaces
RECURSIVE WordsEnd(_, _), JoinWords(_, _, _)
WordsEnd(toks, i) == IF i <= Len(toks) /\ toks[i].t = "i" THEN WordsEnd(toks, i + 1) ELSE i
JoinWords(toks, i, j) == IF i > j THEN << >> ELSE IF i = j THEN toks[i].s ELSE toks[i].s \o <<32>> \o JoinWords(toks, i + 1, j)

RECURSIVE POr(_, _, _), PLevel(_, _, _, _), PTail(_, _, _, _, _), PUnary(_, _, _), PPrimary(_, _, _)
Levels == << {"|"}, {"^"}, {"&"}, {"<<", ">>"}, {"+", "-"}, {"*", "/", "%"} >>

POr(toks, i, env) == PLevel(toks, i, env, 1)
PLevel(toks, i, env, lv) ==
  IF lv > Len(Levels) THEN PUnary(toks, i, env)
  ELSE LET l == PLevel(toks, i, env, lv + 1) IN IF ~l.ok THEN PErr ELSE PTail(toks, l.i, env, lv, l.v)
\* { op operand }  folded to the left
PTail(toks, i, env, lv, acc) ==
  IF IsOp(toks, i, Levels[lv])
  THEN LET r == PLevel(toks, i + 1, env, lv + 1) IN
       IF ~r.ok THEN PErr ELSE PTail(toks, r.i, env, lv, BinVal(toks[i].s, acc, r.v))
  ELSE [ok |-> TRUE, v |-> acc, i |-> i]
PUnary(toks, i, env) ==
  IF IsOp(toks, i, {"-", "~"})
  THEN LET r == PUnary(toks, i + 1, env) IN
       IF ~r.ok THEN PErr ELSE [ok |-> TRUE, v |-> IF r.v = XX THEN XX ELSE ApplyUn(toks[i].s, r.v), i |-> r.i]
  ELSE PPrimary(toks, i, env)
PPrimary(toks, i, env) ==
  IF i > Len(toks) THEN PErr
  ELSE LET k == toks[i] IN
       IF k.t = "n" THEN [ok |-> TRUE, v |-> k.v, i |-> i + 1]
       ELSE IF k.t = "i" THEN [ok |-> TRUE, v |-> Resolve(env, k.s), i |-> i + 1]
       ELSE IF k.s = "(" THEN LET r == POr(toks, i + 1, env) IN
                              IF r.ok /\ IsOp(toks, r.i, {")"}) THEN [r EXCEPT !.i = r.i + 1] ELSE PErr
       ELSE IF k.s = "sizeof" THEN
            LET e == WordsEnd(toks, i + 2) IN        \* the words of the type name are toks[i+2 .. e-1]
            IF IsOp(toks, i + 1, {"("}) /\ e > i + 2 /\ IsOp(toks, e, {")"})
            THEN [ok |-> TRUE, v |-> Lookup(env.sizes, JoinWords(toks, i + 2, e - 1)), i |-> e + 1] ELSE PErr
       ELSE PErr

\* [wf, v]: well-formed (lexes and parses completely) and its value (XX = outside the guarded domain)
Meaning(text, env) ==
  LET lx == Lex(text, 1, << >>) IN
  IF ~lx.ok THEN [wf |-> FALSE, v |-> 0]
  ELSE LET p == POr(lx.toks, 1, env) IN
       IF p.ok /\ p.i = Len(lx.toks) + 1 THEN [wf |-> TRUE, v |-> p.v] ELSE [wf |-> FALSE, v |-> 0]
=============================================================================
