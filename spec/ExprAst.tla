------------------------------ MODULE ExprAst ------------------------------
(***************************************************************************)
(* Meaning of an expression *tree* (C semantics over unbounded integers,   *)
(* here range-guarded TLC integers).  The tree is what the C grammar       *)
(* assigns to a token sequence (module ExprGrammar); the code's            *)
(* shunting-yard evaluator is modelled separately (module ExprMachine).    *)
(*   [k |-> "lit", n]  [k |-> "id", name]  [k |-> "un", o, e]              *)
(*   [k |-> "bin", o, l, r]   [k |-> "sizeof", size]                       *)
(* Identifiers resolve in the field context first, then in the constants.  *)
(***************************************************************************)
EXTENDS Ints

\* guard value: result outside the modelled domain
XX == 1073741823
Big(v) == v > 16777216 \/ v < -16777216

ApplyBin(o, a, b) ==
  CASE o = "|"  -> BOr(a, b)
    [] o = "^"  -> BXor(a, b)
    [] o = "&"  -> BAnd(a, b)
    [] o = "<<" -> a * (2 ^ b)
    [] o = ">>" -> a \div (2 ^ b)
    [] o = "+"  -> a + b
    [] o = "-"  -> a - b
    [] o = "*"  -> a * b
    [] o = "/"  -> a \div b
    [] o = "%"  -> a % b
ApplyUn(o, a) == IF o = "-" THEN -a ELSE (-a) - 1

\* domain of the property: shifts by small non-negative counts, / and % on non-negative / positive operands
BinDefined(o, a, b) ==
  /\ (o \in {"<<", ">>"} => b >= 0 /\ b <= 20)
  /\ (o \in {"/", "%"} => a >= 0 /\ b > 0)

CtxInt(v) == IF v.k = "enum" THEN ToInt(v.v) ELSE IF v.k = "ptr" THEN ToInt(v.addr) ELSE ToInt(v)
CtxIsInt(v) == (v.k = "int" /\ SmallInt(v)) \/ (v.k = "enum" /\ SmallInt(v.v)) \/ (v.k = "ptr" /\ SmallInt(v.addr))

RECURSIVE EvalAst(_, _, _)
EvalAst(e, ctx, consts) ==
  CASE e.k = "lit" -> e.n
    [] e.k = "sizeof" -> e.size
    [] e.k = "id" -> IF e.name \in DOMAIN ctx THEN (IF CtxIsInt(ctx[e.name]) THEN CtxInt(ctx[e.name]) ELSE XX)
                     ELSE IF e.name \in DOMAIN consts THEN consts[e.name] ELSE XX
    [] e.k = "un" -> LET a == EvalAst(e.e, ctx, consts) IN IF a = XX THEN XX ELSE ApplyUn(e.o, a)
    [] e.k = "bin" -> LET a == EvalAst(e.l, ctx, consts)
                          b == EvalAst(e.r, ctx, consts)
                      IN IF a = XX \/ b = XX THEN XX
                         ELSE IF ~BinDefined(e.o, a, b) THEN XX
                         ELSE LET r == ApplyBin(e.o, a, b) IN IF Big(r) THEN XX ELSE r
=============================================================================
