------------------------------ MODULE EnumSpec ------------------------------
(***************************************************************************)
(* C12: numbering of enum / flag members and their equality rules.         *)
(* A declaration is [flag |-> BOOLEAN, members |-> Seq([name, text])]      *)
(* where text is the character-code sequence of the explicit value         *)
(* (empty = none).  Explicit values are expressions (module ExprGrammar)   *)
(* over the members declared before.  Members without a value continue     *)
(* from the previous one: enum -> previous + 1 (first: 0), flag -> the     *)
(* next higher power of two (first: 1).                                    *)
(***************************************************************************)
EXTENDS ExprGrammar

RECURSIVE Pow2Above(_, _)
Pow2Above(v, p) == IF p > v THEN p ELSE Pow2Above(v, 2 * p)      \* smallest power of two strictly greater than v (v >= 0)

\* acc: sequence of <<name codes, value>> for the members so far
RECURSIVE Number(_, _, _, _)
Number(decl, i, acc, consts) ==
  IF i > Len(decl.members) THEN acc
  ELSE LET mem == decl.members[i]
           prev == IF i = 1 THEN XX ELSE acc[i - 1][2]
           auto == IF i = 1 THEN (IF decl.flag THEN 1 ELSE 0)
                   ELSE IF prev = XX THEN XX
                   ELSE IF decl.flag THEN (IF prev < 0 THEN XX ELSE Pow2Above(prev, 1)) ELSE prev + 1
           val == IF Len(mem.text) = 0 THEN auto
                  ELSE LET mm == Meaning(mem.text, [ctx |-> acc, consts |-> consts, sizes |-> << >>]) IN IF mm.wf THEN mm.v ELSE XX
       IN Number(decl, i + 1, Append(acc, <<mem.name, val>>), consts)

Members(decl, consts) == Number(decl, 1, << >>, consts)
InDomain(ms) == \A j \in 1..Len(ms) : ms[j][2] # XX

\* equality of an enum/flag object a = [cls, v] with b = [cls, v] (cls = "int" for a plain integer)
EqRule(a, b) == IF b.cls = "int" THEN a.v = b.v ELSE a.cls = b.cls /\ a.v = b.v
=============================================================================
