------------------------------ MODULE Layout ------------------------------
(***************************************************************************)
(* Abstract syntax of types, sizes, alignments and the structure layout    *)
(* rule.                                                                   *)
(*                                                                         *)
(* Types are tagged records (they arrive as JSON from the harness):        *)
(*   [k |-> "int",   name, size, signed, align]                            *)
(*   [k |-> "float", size]      [k |-> "char"]  [k |-> "wchar"]            *)
(*   [k |-> "leb", signed]      [k |-> "void"]                             *)
(*   [k |-> "enum", name, flag, base]          base is an "int" type       *)
(*   [k |-> "ptr", target]                                                 *)
(*   [k |-> "arr", elem, len]   len.k \in {"fixed","null","eof","expr"}    *)
(*   [k |-> "struct" | "union", name, fields]                              *)
(*        fields = Seq([name, type, bits])   bits = 0: not a bit-field     *)
(* A mode is [endian \in {"<",">"}, align \in BOOLEAN, ptr \in {1,2,4,8}]. *)
(*                                                                         *)
(* CLayout is the *declarative* C rule the property C04/C06 states; the    *)
(* operational mirror of the code's loop lives in MC_Layout.tla.           *)
(***************************************************************************)
EXTENDS Ints

Dyn == -1          \* "no static size / offset"
Cont == -2         \* offset marker: bit-field continuing the unit of its predecessor

RECURSIVE SizeOf(_, _), AlignOf(_, _), CLayoutFrom(_, _, _, _, _)

\* the integer type that stores a bit-field of type t
Storage(t) == IF t.k = "enum" THEN t.base
              ELSE IF t.k = "char" THEN [k |-> "int", name |-> "char", size |-> 1, signed |-> FALSE, align |-> 1]
              ELSE t

\* Whether the members of structure / union t are aligned: the mode of the cstruct object's load() call - or, for a definition
\* loaded with another align= setting than the rest (load() takes it per call), the setting recorded in the type itself.
Aligned(t, m) == IF "align" \in DOMAIN t THEN t.align ELSE m.align

\* a pointer is stored as the configured unsigned integer type (m.ptr = its width in bytes): uint8/16/32/64 are aligned to
\* their size, the odd widths as the library's integer types of that width are (uint24 -> 4, uint48 -> 8)
PtrAlign(m) == IF m.ptr = 3 THEN 4 ELSE IF m.ptr = 6 THEN 8 ELSE m.ptr
AlignOf(t, m) ==
  CASE t.k = "int"   -> t.align
    [] t.k = "float" -> t.size
    [] t.k = "char"  -> 1
    [] t.k = "wchar" -> 2
    [] t.k = "leb"   -> 1
    [] t.k = "void"  -> 1
    [] t.k = "ptr"   -> PtrAlign(m)
    [] t.k = "enum"  -> AlignOf(t.base, m)
    [] t.k = "arr"   -> AlignOf(t.elem, m)
    [] t.k \in {"struct", "union"} ->
         LET S == {AlignOf(t.fields[i].type, m) : i \in 1..Len(t.fields)} IN IF S = {} THEN 1 ELSE SetMax(S)

SizeOf(t, m) ==
  CASE t.k = "int"   -> t.size
    [] t.k = "float" -> t.size
    [] t.k = "char"  -> 1
    [] t.k = "wchar" -> 2
    [] t.k = "leb"   -> Dyn
    [] t.k = "void"  -> 0
    [] t.k = "ptr"   -> m.ptr
    [] t.k = "enum"  -> SizeOf(t.base, m)
    [] t.k = "arr"   -> IF t.len.k = "fixed" /\ SizeOf(t.elem, m) # Dyn THEN t.len.n * SizeOf(t.elem, m) ELSE Dyn
    [] t.k = "union" ->
         LET S == {SizeOf(t.fields[i].type, m) : i \in 1..Len(t.fields)} IN
         IF Dyn \in S THEN Dyn
         ELSE LET mx == IF S = {} THEN 0 ELSE SetMax(S) IN IF Aligned(t, m) THEN AlignUp(mx, AlignOf(t, m)) ELSE mx
    [] t.k = "struct" -> CLayoutFrom(t, m, 1, 0, [rem |-> 0, base |-> ""]).size

\* C layout rule, field by field.
\*   off : offset where the next field may start (Dyn once a dynamic member was passed)
\*   bu  : open bit-field unit [rem = unassigned bits left, base = name of its storage type]
\* result: offs[i] = offset of field i (Dyn = known only at run time, Cont = shares the unit of field i-1),
\*         bitpos[i] = bits of the unit already assigned before field i (0 for non bit-fields),
\*         size (Dyn if dynamic), straddle = some bit-field does not fit the rest of its unit
CLayoutFrom(t, m, i, off, bu) ==
  IF i > Len(t.fields)
  THEN [offs |-> << >>, bitpos |-> << >>, straddle |-> FALSE,
        size |-> IF off = Dyn THEN Dyn ELSE IF Aligned(t, m) THEN AlignUp(off, AlignOf(t, m)) ELSE off]
  ELSE LET f == t.fields[i]
           a == IF Aligned(t, m) THEN AlignOf(f.type, m) ELSE 1
           o == IF off = Dyn THEN Dyn ELSE AlignUp(off, a)
       IN IF f.bits > 0
          THEN LET st == Storage(f.type) IN
               IF bu.rem = 0 \/ bu.base # st.name
               THEN \* a new storage unit starts here
                    LET rest == CLayoutFrom(t, m, i + 1, IF o = Dyn THEN Dyn ELSE o + st.size,
                                            [rem |-> 8 * st.size - f.bits, base |-> st.name])
                    IN [offs |-> << o >> \o rest.offs, bitpos |-> << 0 >> \o rest.bitpos, size |-> rest.size,
                        straddle |-> rest.straddle \/ f.bits > 8 * st.size]
               ELSE LET rest == CLayoutFrom(t, m, i + 1, off, [bu EXCEPT !.rem = @ - f.bits])
                    IN [offs |-> << Cont >> \o rest.offs, bitpos |-> << 8 * st.size - bu.rem >> \o rest.bitpos,
                        size |-> rest.size, straddle |-> rest.straddle \/ f.bits > bu.rem]
          ELSE LET sz == SizeOf(f.type, m)
                   rest == CLayoutFrom(t, m, i + 1, IF o = Dyn \/ sz = Dyn THEN Dyn ELSE o + sz, [rem |-> 0, base |-> ""])
               IN [offs |-> << o >> \o rest.offs, bitpos |-> << 0 >> \o rest.bitpos, size |-> rest.size,
                   straddle |-> rest.straddle]

CLayout(t, m) == CLayoutFrom(t, m, 1, 0, [rem |-> 0, base |-> ""])

\* a definition the library must accept: no bit-field straddles its storage unit, anywhere
RECURSIVE WellFormed(_, _)
WellFormed(t, m) ==
  CASE t.k = "struct" -> ~CLayout(t, m).straddle /\ \A i \in 1..Len(t.fields) : WellFormed(t.fields[i].type, m)
    [] t.k = "union"  -> \A i \in 1..Len(t.fields) : WellFormed(t.fields[i].type, m)
    [] t.k = "arr"    -> WellFormed(t.elem, m)
    [] OTHER -> TRUE

\* layout observation of a type as the harness projects it from the real class
LayoutObs(t, m) ==
  IF t.k = "struct"
  THEN LET l == CLayout(t, m) IN
       [size |-> l.size, align |-> AlignOf(t, m), offs |-> [i \in 1..Len(l.offs) |-> IF l.offs[i] < 0 THEN Dyn ELSE l.offs[i]]]
  ELSE IF t.k = "union"
  THEN [size |-> SizeOf(t, m), align |-> AlignOf(t, m), offs |-> [i \in 1..Len(t.fields) |-> Dyn]]
  ELSE [size |-> SizeOf(t, m), align |-> AlignOf(t, m), offs |-> << >>]
=============================================================================
