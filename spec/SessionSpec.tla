----------------------------- MODULE SessionSpec -----------------------------
(***************************************************************************)
(* The API-level meaning of structure *instances* (C14, C17):              *)
(*   Zero(t)            the value of a default-constructed instance        *)
(*   Init(t, args, kw)  positional / keyword construction = assigning      *)
(*                      those fields on Zero(t)                            *)
(*   UpdPath(v, p, x)   assignment at a path of field indices / array      *)
(*                      element indices                                    *)
(*   ValEq / Bool       equality and truthiness "as the Python value it is"*)
(* All of them are functions of the instance alone: nothing else is state. *)
(***************************************************************************)
EXTENDS Codec

Zero(t, m) == ZeroOf(t, m)

\* positional arguments fill the fields in order, keyword arguments by field index; the rest keeps the zero value.
\* An argument that is None ([k |-> "none"]) is an unspecified one, positional or keyword.
IsNone(a) == a = [k |-> "none"]
Init(t, m, args, kwargs) ==
  LET z == Zero(t, m)
      KwIdx == {kwargs[j][1] : j \in 1..Len(kwargs)}
      KwVal(i) == kwargs[CHOOSE j \in 1..Len(kwargs) : kwargs[j][1] = i][2]
  IN [z EXCEPT !.vals = [i \in 1..Len(z.vals) |-> IF i <= Len(args) /\ ~IsNone(args[i]) THEN args[i]
                                              ELSE IF i > Len(args) /\ i \in KwIdx /\ ~IsNone(KwVal(i)) THEN KwVal(i) ELSE z.vals[i]]]

\* path element: [k |-> "f", i |-> field index]  or  [k |-> "e", i |-> element index (1-based)]
RECURSIVE UpdPath(_, _, _)
UpdPath(v, path, new) ==
  IF Len(path) = 0 THEN new
  ELSE IF path[1].k = "f" THEN [v EXCEPT !.vals[path[1].i] = UpdPath(@, Tail(path), new)]
  ELSE [v EXCEPT !.items[path[1].i] = UpdPath(@, Tail(path), new)]

RECURSIVE ValEq(_, _)
FloatZero(b) == \A j \in 1..Len(b) : b[j] = 0 \/ (j = 1 /\ b[j] = 128)
ValEq(a, b) ==
  IF a.k # b.k THEN FALSE
  ELSE CASE a.k = "float"  -> a.bits = b.bits \/ (FloatZero(a.bits) /\ FloatZero(b.bits))
         [] a.k = "list"   -> Len(a.items) = Len(b.items) /\ \A j \in 1..Len(a.items) : ValEq(a.items[j], b.items[j])
         [] a.k = "struct" -> a.cls = b.cls /\ Len(a.vals) = Len(b.vals) /\ \A j \in 1..Len(a.vals) : ValEq(a.vals[j], b.vals[j])
         [] OTHER -> a = b

\* an instance is falsy exactly when every field value is falsy as the Python value it is
Bool(v) == Truthy(v)
=============================================================================
