----------------------------- MODULE SessionSpec -----------------------------
(***************************************************************************)
(* The API-level meaning of structure *instances* (C14, C17):              *)
(*   Zero(t)            the value of a default-constructed instance        *)
(*   Init(t, args, kw)  positional / keyword construction = assigning      *)
(*                      those fields on Zero(t)                            *)
(*   UpdPath(v, p, x)   assignment at a path of field indices / array      *)
(*                      element indices                                    *)
(*   ValEq / Bool       equality and truthiness "as the Python value it is"*)
(* All of them are functions of the instance alone: nothing else is state. *)
(***************************************************************************)
EXTENDS UnionOps

Zero(t, m) == ZeroOf(t, m)

\* positional arguments fill the fields in order, keyword arguments by field index; the rest keeps the zero value.
\* An argument that is None ([k |-> "none"]) is an unspecified one, positional or keyword.
IsNone(a) == a = [k |-> "none"]
StructInit(t, m, args, kwargs) ==
  LET z == Zero(t, m)
      KwIdx == {kwargs[j][1] : j \in 1..Len(kwargs)}
      KwVal(i) == kwargs[CHOOSE j \in 1..Len(kwargs) : kwargs[j][1] = i][2]
  IN [z EXCEPT !.vals = [i \in 1..Len(z.vals) |-> IF i <= Len(args) /\ ~IsNone(args[i]) THEN args[i]
                                              ELSE IF i > Len(args) /\ i \in KwIdx /\ ~IsNone(KwVal(i)) THEN KwVal(i) ELSE z.vals[i]]]
\* A (fixed-size) union is one buffer: constructing it from a value = assigning that member on the all-zero union, which
\* makes every member show the new bytes (UnionOps.Upd).  The FIRST argument is the one the union is built from, and for a
\* union None is a given value - the member's zero - not an unspecified one: the test suite pins U(None, 1) == all zero.
\* What several values mean the statement of C17 does not say (which assignment would come last?); the implementation's
\* answer "the first, the others are dropped" is modelled as it is.
UnionInit(t, m, args, kwargs) ==
  LET z == Zero(t, m)
      Val(i, a) == IF IsNone(a) THEN ZeroOf(t.fields[i].type, m) ELSE a
  IN IF Len(args) > 0 THEN Upd(t, m, z, << 1 >>, Val(1, args[1]), << >>, FALSE)
     ELSE IF Len(kwargs) > 0 THEN Upd(t, m, z, << kwargs[1][1] >>, Val(kwargs[1][1], kwargs[1][2]), << >>, FALSE)
     ELSE z
Init(t, m, args, kwargs) == IF t.k = "union" THEN UnionInit(t, m, args, kwargs) ELSE StructInit(t, m, args, kwargs)

\* path element: [k |-> "f", i |-> field index]  or  [k |-> "e", i |-> element index (1-based)]
RECURSIVE UpdPath(_, _, _)
UpdPath(v, path, new) ==
  IF Len(path) = 0 THEN new
  ELSE IF path[1].k = "f" THEN [v EXCEPT !.vals[path[1].i] = UpdPath(@, Tail(path), new)]
  ELSE [v EXCEPT !.items[path[1].i] = UpdPath(@, Tail(path), new)]

RECURSIVE ValEq(_, _)
FloatZero(b) == \A j \in 1..Len(b) : b[j] = 0 \/ (j = 1 /\ b[j] = 128)
ValEq(a, b) ==
  IF a.k # b.k THEN FALSE
  ELSE CASE a.k = "float"  -> a.bits = b.bits \/ (FloatZero(a.bits) /\ FloatZero(b.bits))
         [] a.k = "list"   -> Len(a.items) = Len(b.items) /\ \A j \in 1..Len(a.items) : ValEq(a.items[j], b.items[j])
         [] a.k = "struct" -> a.cls = b.cls /\ Len(a.vals) = Len(b.vals) /\ \A j \in 1..Len(a.vals) : ValEq(a.vals[j], b.vals[j])
         [] OTHER -> a = b

\* an instance is falsy exactly when every field value is falsy as the Python value it is
Bool(v) == Truthy(v)
=============================================================================
