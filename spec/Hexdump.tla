------------------------------ MODULE Hexdump ------------------------------
(***************************************************************************)
(* C19: what a hex dump must contain, and integer packing.                 *)
(* A dump is a sequence of lines [offset, hex, ascii, colors] where hex is *)
(* the sequence of byte values shown in the hex column, ascii the codes of *)
(* the characters shown in the text column and colors the number of colour *)
(* escape tokens on the line.  Lossless: every byte exactly once, in       *)
(* order, sixteen per line, running offset correct, text column = the      *)
(* printable image of the same bytes.  Cosmetic: a palette changes nothing *)
(* but the colour tokens.                                                  *)
(***************************************************************************)
EXTENDS Ints

\* printable ASCII: digits, letters, punctuation and the space
Printable(b) == b >= 32 /\ b <= 126
Shown(b) == IF Printable(b) THEN b ELSE 46

NLines(n) == (n + 15) \div 16
LineBytes(data, k) == SubSeq(data, 16 * (k - 1) + 1, Min2(16 * k, Len(data)))

Lossless(data, start, lines) ==
  /\ Len(lines) = NLines(Len(data))
  /\ \A k \in 1..Len(lines) :
       /\ lines[k].offset = start + 16 * (k - 1)
       /\ lines[k].hex = LineBytes(data, k)
       /\ lines[k].ascii = [i \in 1..Len(LineBytes(data, k)) |-> Shown(LineBytes(data, k)[i])]

\* same dump with the colour tokens removed
Plain(lines) == [k \in 1..Len(lines) |-> [offset |-> lines[k].offset, hex |-> lines[k].hex, ascii |-> lines[k].ascii]]
Cosmetic(colored, plain) == Plain(colored) = Plain(plain)

\* ---- pack / unpack / swap on limb integers
IsLittle(e) == e \in {"little", "<"}
IsBig(e) == e \in {"big", ">", "!", "network"}
Ordered(le, e) == IF IsLittle(e) THEN le ELSE Rev(le)
\* a width given in bits stands for the whole bytes that hold it (12 bits -> 2 bytes), for packing and for unpacking alike
WBytes(bits) == (bits + 7) \div 8
PackBytes(v, bits, e) == Ordered(IntBytes(v, WBytes(bits)), e)
UnpackVal(b, e, sign) == IntVal(Ordered(b, e), sign)     \* Ordered is an involution: big-endian bytes reversed are little-endian
\* pack without a width: the fewest whole bytes that hold the value - unsigned for v >= 0 (none at all for 0), two's complement
\* with room for the sign bit for v < 0
MinWidth(v) == IF ~v.neg THEN Len(v.mag)
               ELSE CHOOSE w \in 1..(Len(v.mag) + 1) : FitsInt(v, w, TRUE) /\ (w = 1 \/ ~FitsInt(v, w - 1, TRUE))
PackMin(v, e) == Ordered(IntBytes(v, MinWidth(v)), e)
SwapVal(v, bits) == IntVal(Rev(IntBytes(v, WBytes(bits))), FALSE)
=============================================================================
