------------------------------ MODULE UnionOps ------------------------------
(***************************************************************************)
(* C11: a union is ONE byte buffer; every member is the result of parsing  *)
(* that member's type from the buffer (all members start at the union's    *)
(* start).  Assigning to a member - directly or through nested structures  *)
(* - rewrites the data bits of that member's new encoding and leaves every *)
(* other bit of the buffer as it was.                                      *)
(***************************************************************************)
EXTENDS Codec

\* replace, in buf, exactly the data bits of the encoding e = [b, k]
Overlay(buf, e) ==
  [i \in 1..Len(buf) |-> IF i <= Len(e.b) THEN BOr(BAnd(buf[i], 255 - e.k[i]), BAnd(e.b[i], e.k[i])) ELSE buf[i]]
\* KNOWN DEVIATION (finding F27): the implementation writes the member's whole extent, its padding as zero
OverlayWhole(buf, e) == [i \in 1..Len(buf) |-> IF i <= Len(e.b) THEN e.b[i] ELSE buf[i]]

Views(t, m, buf, consts) == [j \in 1..Len(t.fields) |-> Decode(t.fields[j].type, m, buf, 0, << >>, consts)]
ViewsOk(vs) == \A j \in 1..Len(vs) : vs[j].ok
UnionValue(t, vs) == [k |-> "struct", cls |-> t.name, names |-> [j \in 1..Len(t.fields) |-> t.fields[j].name],
                      vals |-> [j \in 1..Len(vs) |-> vs[j].v]]

\* the value of type t obtained from v by assigning `new` at `path` (field indices); inside a union the assignment goes
\* through that union's buffer, so that all its members stay coherent.  whole = use the known deviation.
RECURSIVE Upd(_, _, _, _, _, _, _)
Upd(t, m, v, path, new, consts, whole) ==
  IF Len(path) = 0 THEN new
  ELSE LET j == path[1]
           ft == t.fields[j].type
           sub == Upd(ft, m, v.vals[j], Tail(path), new, consts, whole)
       IN IF t.k = "struct" THEN [v EXCEPT !.vals[j] = sub]
          ELSE LET buf == Enc(t, m, v, 0).b
                   e == EncX(ft, m, sub, 0, whole)
                   nb == IF whole THEN OverlayWhole(buf, e) ELSE Overlay(buf, e)
               IN UnionValue(t, Views(t, m, nb, consts))

\* the union's buffer after assigning `new` at `path` (path[1] = member index)
AssignBuf(t, m, buf, path, new, consts, whole) ==
  LET j == path[1]
      ft == t.fields[j].type
      cur == Decode(ft, m, buf, 0, << >>, consts).v
      e == EncX(ft, m, Upd(ft, m, cur, Tail(path), new, consts, whole), 0, whole)   \* the deviation also dumps nested unions through one member
  IN IF whole THEN OverlayWhole(buf, e) ELSE Overlay(buf, e)

\* bits of the union's extent that are data in at least one member
UnionMask(t, m, buf, consts) == Enc(t, m, UnionValue(t, Views(t, m, buf, consts)), 0).k
=============================================================================
