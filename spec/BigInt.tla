------------------------------- MODULE BigInt -------------------------------
(***************************************************************************)
(* Unbounded integer arithmetic on limb strings (C10: "evaluates ... over  *)
(* unbounded integers").  A value is  [k |-> "int", neg, mag]  as in       *)
(* module Ints: magnitude in little-endian base 256 without trailing       *)
(* zeros, zero = [neg |-> FALSE, mag |-> << >>].  Every intermediate TLC   *)
(* integer stays below 2^31.                                               *)
(*   BAddI BSubI BMulI BNegI BNotI            always defined               *)
(*   BDivI BModI         a >= 0, b > 0   (C and Python agree there)        *)
(*   BShlI BShrI         0 <= count <= MaxShift ; >> is the floor shift      *)
(*   BAndI BOrI BXorI    two's complement over unbounded integers          *)
(* Undef marks a result outside that domain.                               *)
(***************************************************************************)
EXTENDS Ints

Undef == [k |-> "undef"]
IsDef(v) == v.k = "int"
MaxShift == 400
MaxLimbs == 64

Mk(neg, mag) == LET m == StripZeros(mag) IN [k |-> "int", neg |-> neg /\ m # << >>, mag |-> m]
Limb(s, i) == IF i <= Len(s) THEN s[i] ELSE 0

\* ---- magnitudes
MCmp(a, b) ==       \* -1, 0, 1
  IF Len(a) # Len(b) THEN (IF Len(a) < Len(b) THEN -1 ELSE 1)
  ELSE LET D == {i \in 1..Len(a) : a[i] # b[i]} IN
       IF D = {} THEN 0 ELSE LET t == SetMax(D) IN IF a[t] < b[t] THEN -1 ELSE 1

RECURSIVE MAddC(_, _, _, _)
MAddC(a, b, i, c) ==
  IF i > Len(a) /\ i > Len(b) THEN (IF c = 0 THEN << >> ELSE << c >>)
  ELSE LET x == Limb(a, i) + Limb(b, i) + c IN << x % 256 >> \o MAddC(a, b, i + 1, x \div 256)
MAdd(a, b) == MAddC(a, b, 1, 0)

RECURSIVE MSubC(_, _, _, _)
MSubC(a, b, i, br) ==       \* a >= b
  IF i > Len(a) THEN << >>
  ELSE LET x == a[i] - Limb(b, i) - br IN
       IF x < 0 THEN << x + 256 >> \o MSubC(a, b, i + 1, 1) ELSE << x >> \o MSubC(a, b, i + 1, 0)
MSub(a, b) == StripZeros(MSubC(a, b, 1, 0))

RECURSIVE MMulSmallC(_, _, _, _)
MMulSmallC(a, d, i, c) ==   \* 0 <= d < 2^22
  IF i > Len(a) THEN (IF c = 0 THEN << >> ELSE NatToLimbs(c))
  ELSE LET x == a[i] * d + c IN << x % 256 >> \o MMulSmallC(a, d, i + 1, x \div 256)
MMulSmall(a, d) == IF d = 0 THEN << >> ELSE StripZeros(MMulSmallC(a, d, 1, 0))

RECURSIVE MMulAcc(_, _, _, _)
MMulAcc(a, b, j, acc) ==
  IF j > Len(b) THEN acc
  ELSE MMulAcc(a, b, j + 1, MAdd(acc, Zeros(j - 1) \o MMulSmall(a, b[j])))
MMul(a, b) == StripZeros(MMulAcc(a, b, 1, << >>))

\* long division: [q, r] with a = q*b + r, 0 <= r < b   (b # 0); one quotient limb per step, found by bisection
RECURSIVE QDigit(_, _, _, _)
QDigit(rem, b, lo, hi) ==   \* largest k in lo..hi with b*k <= rem   (b*lo <= rem holds)
  IF lo = hi THEN lo
  ELSE LET mid == (lo + hi + 1) \div 2 IN
       IF MCmp(MMulSmall(b, mid), rem) <= 0 THEN QDigit(rem, b, mid, hi) ELSE QDigit(rem, b, lo, mid - 1)
RECURSIVE MDivStep(_, _, _, _, _)
MDivStep(a, b, i, rem, q) ==    \* i runs from Len(a) down to 1
  IF i = 0 THEN [q |-> StripZeros(q), r |-> rem]
  ELSE LET rem1 == StripZeros(<< a[i] >> \o rem)
           k == QDigit(rem1, b, 0, 255)
       IN MDivStep(a, b, i - 1, MSub(rem1, MMulSmall(b, k)), << k >> \o q)
MDivMod(a, b) == MDivStep(a, b, Len(a), << >>, << >>)

Pow2(r) == 2 ^ r          \* r < 8
MShl(a, n) == IF a = << >> THEN << >> ELSE Zeros(n \div 8) \o MMulSmall(a, Pow2(n % 8))
MShr(a, n) == LET q == n \div 8 IN
              IF q >= Len(a) THEN << >> ELSE MDivMod(SubSeq(a, q + 1, Len(a)), << Pow2(n % 8) >>).q

MBit(a, b, f(_, _), n) == StripZeros([i \in 1..n |-> f(Limb(a, i), Limb(b, i))])
AndNot(x, y) == BAnd(x, 255 - y)

\* ---- signed
BNegI(a) == Mk(~a.neg, a.mag)
BAddI(a, b) ==
  IF a.neg = b.neg THEN Mk(a.neg, MAdd(a.mag, b.mag))
  ELSE IF MCmp(a.mag, b.mag) >= 0 THEN Mk(a.neg, MSub(a.mag, b.mag)) ELSE Mk(b.neg, MSub(b.mag, a.mag))
BSubI(a, b) == BAddI(a, BNegI(b))
BMulI(a, b) == Mk(a.neg # b.neg, MMul(a.mag, b.mag))
One == Mk(FALSE, << 1 >>)
BNotI(a) == BSubI(BNegI(a), One)                       \* ~a = -a - 1
BDivI(a, b) == IF a.neg \/ b.neg \/ b.mag = << >> THEN Undef ELSE Mk(FALSE, MDivMod(a.mag, b.mag).q)
BModI(a, b) == IF a.neg \/ b.neg \/ b.mag = << >> THEN Undef ELSE Mk(FALSE, MDivMod(a.mag, b.mag).r)
SmallCount(b) == ~b.neg /\ Len(b.mag) <= 2 /\ LimbsToNat(b.mag) <= MaxShift
BShlI(a, b) == IF ~SmallCount(b) THEN Undef ELSE Mk(a.neg, MShl(a.mag, LimbsToNat(b.mag)))
\* >> is the arithmetic shift (floor), as for two's complement machines and as ExprAst defines it on guarded integers:
\* for a < 0:  a >> n = -ceil(|a| / 2^n) = -((|a| + 2^n - 1) >> n)
BShrI(a, b) == IF ~SmallCount(b) THEN Undef
               ELSE LET n == LimbsToNat(b.mag) IN
                    IF ~a.neg THEN Mk(FALSE, MShr(a.mag, n))
                    ELSE Mk(TRUE, MShr(MAdd(a.mag, MSub(MShl(<< 1 >>, n), << 1 >>)), n))
\* two's complement over unbounded integers: x < 0 is ~X with X = -x - 1 >= 0
Co(a) == BNotI(a).mag                                   \* X for a negative a
BAndI(a, b) ==
  LET n == Max2(Len(a.mag), Len(b.mag)) + 1 IN
  IF ~a.neg /\ ~b.neg THEN Mk(FALSE, MBit(a.mag, b.mag, BAnd, n))
  ELSE IF ~a.neg THEN Mk(FALSE, MBit(a.mag, Co(b), AndNot, n))
  ELSE IF ~b.neg THEN Mk(FALSE, MBit(b.mag, Co(a), AndNot, n))
  ELSE BNotI(Mk(FALSE, MBit(Co(a), Co(b), BOr, n)))
BOrI(a, b) ==
  LET n == Max2(Len(a.mag), Len(b.mag)) + 1 IN
  IF ~a.neg /\ ~b.neg THEN Mk(FALSE, MBit(a.mag, b.mag, BOr, n))
  ELSE IF ~a.neg THEN BNotI(Mk(FALSE, MBit(Co(b), a.mag, AndNot, n)))
  ELSE IF ~b.neg THEN BNotI(Mk(FALSE, MBit(Co(a), b.mag, AndNot, n)))
  ELSE BNotI(Mk(FALSE, MBit(Co(a), Co(b), BAnd, n)))
BXorI(a, b) ==
  LET n == Max2(Len(a.mag), Len(b.mag)) + 1 IN
  IF ~a.neg /\ ~b.neg THEN Mk(FALSE, MBit(a.mag, b.mag, BXor, n))
  ELSE IF ~a.neg THEN BNotI(Mk(FALSE, MBit(a.mag, Co(b), BXor, n)))
  ELSE IF ~b.neg THEN BNotI(Mk(FALSE, MBit(Co(a), b.mag, BXor, n)))
  ELSE Mk(FALSE, MBit(Co(a), Co(b), BXor, n))

BApplyBin(o, a, b) ==
  IF ~IsDef(a) \/ ~IsDef(b) THEN Undef
  ELSE LET r == CASE o = "|" -> BOrI(a, b) [] o = "^" -> BXorI(a, b) [] o = "&" -> BAndI(a, b)
                  [] o = "<<" -> BShlI(a, b) [] o = ">>" -> BShrI(a, b)
                  [] o = "+" -> BAddI(a, b) [] o = "-" -> BSubI(a, b) [] o = "*" -> BMulI(a, b)
                  [] o = "/" -> BDivI(a, b) [] o = "%" -> BModI(a, b)
       IN IF IsDef(r) /\ Len(r.mag) > MaxLimbs THEN Undef ELSE r
BApplyUn(o, a) == IF ~IsDef(a) THEN Undef ELSE IF o = "-" THEN BNegI(a) ELSE BNotI(a)
=============================================================================
