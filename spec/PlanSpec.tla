------------------------------ MODULE PlanSpec ------------------------------
(***************************************************************************)
(* The compiled reader as PLAN + EXECUTOR (see MC_Plan.tla for the         *)
(* description).  GenStep is one iteration of the source generator's loop  *)
(* over the fields (state = the generator's variables + the plan so far),  *)
(* GenPlan folds it; ExecPlan runs a plan on an input.  old = the          *)
(* generator before the fixes of findings F2 / F2b.                        *)
(***************************************************************************)
EXTENDS Codec

None == -9
Off(t, m, j) == LET l == CLayout(t, m) IN IF l.offs[j] < 0 THEN None ELSE l.offs[j]
FAlign(t, m, j) == AlignOf(t.fields[j].type, m)
FSize(t, m, j) == LET f == t.fields[j] IN IF f.bits > 0 THEN Storage(f.type).size ELSE SizeOf(f.type, m)

\* which branch of _generate_fields a field takes
IsSub(t, m, j) == LET ty == t.fields[j].type IN
            t.fields[j].bits = 0 /\ (ty.k \in {"struct", "union"} \/ (ty.k = "arr" /\ (ty.elem.k \in {"struct", "union", "arr"} \/ SizeOf(ty, m) = Dyn)))

\* _generate_struct_info: pads and fields of a block
RECURSIVE StructInfo(_, _, _, _, _, _)
StructInfo(t, m, blk, k, current, imaginary) ==
  IF k > Len(blk) THEN << >>
  ELSE LET j == blk[k]
           drift1 == IF Off(t, m, j) # None /\ current # None /\ Off(t, m, j) - current > 0 THEN Off(t, m, j) - current ELSE 0
           cur1 == IF current = None THEN None ELSE current + drift1
           drift2 == IF Aligned(t, m) /\ Off(t, m, j) = None THEN AlignUp(imaginary, FAlign(t, m, j)) - imaginary ELSE 0
           im1 == imaginary + drift2
           sz == FSize(t, m, j)
       IN (IF drift1 > 0 THEN << [pad |-> drift1, f |-> 0] >> ELSE << >>)
          \o (IF drift2 > 0 THEN << [pad |-> drift2, f |-> 0] >> ELSE << >>)
          \o << [pad |-> 0, f |-> j] >>
          \o StructInfo(t, m, blk, k + 1, IF cur1 = None THEN None ELSE cur1 + sz, im1 + sz)

FlushOps(t, m, blk) ==
  IF Len(blk) = 0 THEN << >>
  ELSE (IF Aligned(t, m) /\ Off(t, m, blk[1]) = None THEN << [op |-> "align", a |-> FAlign(t, m, blk[1]), items |-> << >>, i |-> 0] >> ELSE << >>)
       \o << [op |-> "block", a |-> 0, items |-> StructInfo(t, m, blk, 1, Off(t, m, blk[1]), 0), i |-> 0] >>

Seek(off) == [op |-> "seek", a |-> off, items |-> << >>, i |-> 0]
Align(a) == [op |-> "align", a |-> a, items |-> << >>, i |-> 0]
\* align_to_field: [ops, cur]
AlignToField(t, m, j, cur) ==
  [ops |-> (IF Off(t, m, j) # None /\ Off(t, m, j) # cur THEN << Seek(Off(t, m, j)) >> ELSE << >>)
           \o (IF Aligned(t, m) /\ Off(t, m, j) = None THEN << Align(FAlign(t, m, j)) >> ELSE << >>),
   cur |-> IF Off(t, m, j) # None /\ Off(t, m, j) # cur THEN Off(t, m, j) ELSE cur]


GenInit == [cur |-> 0, block |-> << >>, pwb |-> FALSE, pbt |-> "", br |-> 0, plan |-> << >>]
\* one iteration of "for field in self.fields:"
GenStep(t, m, st, i, old) ==
  LET f == t.fields[i]
      stname == Storage(f.type).name
      reset == st.pwb /\ f.bits = 0
      ops0 == IF reset THEN << [op |-> "bitreset", a |-> 0, items |-> << >>, i |-> 0] >> ELSE << >>
      pwb0 == IF reset THEN FALSE ELSE st.pwb
      br0 == IF reset THEN 0 ELSE st.br
      size == FSize(t, m, i)
  IN IF IsSub(t, m, i)
     THEN LET a2f == AlignToField(t, m, i, st.cur) IN
          [st EXCEPT !.plan = @ \o ops0 \o FlushOps(t, m, st.block) \o a2f.ops \o << [op |-> "sub", a |-> 0, items |-> << >>, i |-> i] >>,
                     !.block = << >>, !.pwb = pwb0, !.br = br0,
                     !.cur = IF a2f.cur # None /\ size # Dyn THEN a2f.cur + size ELSE a2f.cur]
     ELSE IF f.bits > 0
     THEN LET pbt0 == IF ~pwb0 THEN stname ELSE st.pbt
              roll == br0 = 0 \/ pbt0 # stname
              pbt1 == IF roll /\ ~old THEN stname ELSE pbt0            \* the old generator never updated the unit's type ...
              br1 == IF roll THEN 8 * size - f.bits ELSE IF old THEN br0 ELSE br0 - f.bits    \* ... nor counted the bits down
              position == old \/ roll \/ Off(t, m, i) # None            \* only a field that starts a unit is positioned
              a2f == IF position THEN AlignToField(t, m, i, st.cur) ELSE [ops |-> << >>, cur |-> st.cur]
          IN [st EXCEPT !.plan = @ \o ops0 \o FlushOps(t, m, st.block) \o a2f.ops \o << [op |-> "bits", a |-> 0, items |-> << >>, i |-> i] >>,
                        !.block = << >>, !.pwb = TRUE, !.pbt = pbt1, !.br = br1,
                        !.cur = IF a2f.cur # None /\ roll THEN a2f.cur + size ELSE a2f.cur]
     ELSE LET flushfirst == ~old /\ Aligned(t, m) /\ Off(t, m, i) = None                      \* dynamic offsets: one field per block
              seekfirst == ~old /\ ~flushfirst /\ Len(st.block) = 0 /\ Off(t, m, i) # None /\ Off(t, m, i) # st.cur
              ops1 == (IF flushfirst THEN FlushOps(t, m, st.block) ELSE << >>) \o (IF seekfirst THEN << Seek(Off(t, m, i)) >> ELSE << >>)
              \* a gap inside the block is padded when the block is generated; the tracked offset follows it (layouts of the
              \* specification have no offsets that go backwards - those come from add_field(offset=) only, finding F46)
              gap == ~old /\ ~seekfirst /\ Off(t, m, i) # None /\ st.cur # None /\ Off(t, m, i) > st.cur
              cur1 == IF seekfirst \/ gap THEN Off(t, m, i) ELSE st.cur
          IN [st EXCEPT !.plan = @ \o ops0 \o ops1, !.block = (IF flushfirst THEN << >> ELSE st.block) \o << i >>,
                        !.pwb = pwb0, !.br = br0, !.cur = IF cur1 # None /\ size # Dyn THEN cur1 + size ELSE cur1]
GenFinish(t, m, st) == st.plan \o FlushOps(t, m, st.block) \o (IF Aligned(t, m) THEN << [op |-> "tailalign", a |-> 0, items |-> << >>, i |-> 0] >> ELSE << >>)
RECURSIVE GenFrom(_, _, _, _, _)
GenFrom(t, m, st, i, old) == IF i > Len(t.fields) THEN GenFinish(t, m, st) ELSE GenFrom(t, m, GenStep(t, m, st, i, old), i + 1, old)
GenPlan(t, m, old) == GenFrom(t, m, GenInit, 1, old)

\* the executor: state [ok, pos, vals (by field index), sizes, unit, rem, utype]
EmptyRun(t, start) == [ok |-> TRUE, err |-> "", pos |-> start, vals |-> [j \in 1..Len(t.fields) |-> NoVal], sizes |-> [j \in 1..Len(t.fields) |-> -1],
                    unit |-> << >>, rem |-> 0, utype |-> "", fl |-> {}]
Fail(s, e) == [s EXCEPT !.ok = FALSE, !.err = e]
CtxAt(t, s) == CtxFields(t, s.vals)      \* the members read so far, anonymous members folded in (Codec.tla)

RECURSIVE ExecItems(_, _, _, _, _, _, _, _)
ExecItems(t, m, kc, items, k, inp, p, s) ==
  IF k > Len(items) THEN s
  ELSE IF items[k].f = 0 THEN ExecItems(t, m, kc, items, k + 1, inp, p + items[k].pad, s)
  ELSE LET j == items[k].f
           r == Decode(t.fields[j].type, m, inp, p, << >>, kc)
       IN IF ~r.ok THEN Fail(s, r.err)
          ELSE ExecItems(t, m, kc, items, k + 1, inp, r.pos, [s EXCEPT !.vals[j] = r.v, !.sizes[j] = r.pos - p, !.fl = @ \cup r.fl])

RECURSIVE Total(_, _, _, _)
Total(t, m, items, k) == IF k > Len(items) THEN 0 ELSE (IF items[k].f = 0 THEN items[k].pad ELSE FSize(t, m, items[k].f)) + Total(t, m, items, k + 1)

ExecOp(t, m, kc, op, inp, start, s) ==
  CASE op.op = "seek" -> [s EXCEPT !.pos = start + op.a]
    [] op.op = "align" -> [s EXCEPT !.pos = AlignRel(s.pos, start, op.a)]
    [] op.op = "tailalign" -> [s EXCEPT !.pos = AlignRel(s.pos, start, AlignOf(t, m))]
    [] op.op = "bitreset" -> [s EXCEPT !.unit = << >>, !.rem = 0, !.utype = ""]
    [] op.op = "block" ->
         LET tot == Total(t, m, op.items, 1) IN
         IF s.pos + tot > Len(inp) THEN Fail(s, "eof")
         ELSE [ExecItems(t, m, kc, op.items, 1, inp, s.pos, s) EXCEPT !.pos = s.pos + tot]
    [] op.op = "sub" ->
         LET j == op.i
             r == Decode(t.fields[j].type, m, inp, s.pos, CtxAt(t, s), kc)
         IN IF ~r.ok THEN Fail(s, r.err)
            ELSE [s EXCEPT !.vals[j] = r.v, !.sizes[j] = r.pos - s.pos, !.pos = r.pos, !.fl = @ \cup r.fl]
    [] op.op = "bits" ->
         LET j == op.i
             f == t.fields[j]
             stg == Storage(f.type)
             refill == s.rem = 0 \/ s.utype # stg.name
             eof == refill /\ s.pos + stg.size > Len(inp)
             unit == IF refill THEN BytesToBits(Endian(Slice(inp, s.pos, stg.size), m)) ELSE s.unit
             rem == IF refill THEN 8 * stg.size ELSE s.rem
             mybits == IF m.endian = "<" THEN SubSeq(unit, 8 * stg.size - rem + 1, 8 * stg.size - rem + f.bits)
                       ELSE SubSeq(unit, rem - f.bits + 1, rem)
             raw == IntVal(BitsToBytes(PadBits(mybits)), FALSE)
             val == IF f.type.k = "enum" THEN [k |-> "enum", cls |-> f.type.name, v |-> raw] ELSE raw
         IN IF eof THEN Fail(s, "eof")
            ELSE IF f.bits > rem THEN Fail(s, "straddle")
            ELSE [s EXCEPT !.vals[j] = val, !.unit = unit, !.rem = rem - f.bits, !.utype = stg.name,
                           !.pos = IF refill THEN s.pos + stg.size ELSE s.pos]

RECURSIVE ExecPlan(_, _, _, _, _, _, _, _)
ExecPlan(t, m, kc, p, k, inp, start, s) ==
  IF k > Len(p) \/ ~s.ok THEN s ELSE ExecPlan(t, m, kc, p, k + 1, inp, start, ExecOp(t, m, kc, p[k], inp, start, s))

Agree(t, m, kc, plan, inp, start) ==
  LET x == ExecPlan(t, m, kc, plan, 1, inp, start, EmptyRun(t, start))
      d == Decode(t, m, inp, start, << >>, kc)
      lax == "lax" \in d.fl \/ "lax" \in x.fl
  IN IF d.ok
     THEN \/ lax /\ ~x.ok /\ x.err = "eof"
          \/ /\ x.ok
             /\ x.vals = d.v.vals
             /\ (lax \/ (x.pos = d.pos /\ \A j \in 1..Len(t.fields) : x.sizes[j] = d.sizes[j] \/ (x.sizes[j] <= 0 /\ d.sizes[j] <= 0)))
     ELSE ~x.ok /\ ErrMatches(x.err, d.err)

\* the shape of a plan as it can be read off generated source text (for the translation check)
Shape(t, m, plan) ==
  [k \in 1..Len(plan) |->
     LET op == plan[k] IN
     CASE op.op = "seek" -> [op |-> "seek", n |-> op.a, names |-> << >>]
       [] op.op = "align" -> [op |-> "align", n |-> op.a, names |-> << >>]
       [] op.op = "block" -> [op |-> "block", n |-> Total(t, m, op.items, 1),
                              names |-> LET fs == SelectSeq(op.items, LAMBDA it : it.f # 0 /\ t.fields[it.f].type.k # "void") IN [j \in 1..Len(fs) |-> t.fields[fs[j].f].name]]
       [] op.op = "bits" -> [op |-> "bits", n |-> 0, names |-> << t.fields[op.i].name >>]
       [] op.op = "sub" -> [op |-> "sub", n |-> 0, names |-> << t.fields[op.i].name >>]
       [] OTHER -> [op |-> op.op, n |-> 0, names |-> << >>]]
=============================================================================
