#!/bin/sh
# usage: seedtest.sh <seed worktree dir> <seed id> <property> [more properties...]
# Confirms a seeded change (tests pass, demo fails with / passes without) in a scratch worktree, then runs the given checks
# against /repo with the patch applied and reverts /repo straight afterwards.
W="$1"; ID="$2"; shift 2
PATCH="$W/SEED/patch.diff"; DEMO="$W/SEED/demo.py"
S=/tmp/confirm_$ID
git -C /repo worktree add -q "$S" HEAD || exit 2
cp "$DEMO" /tmp/demo_$ID.py
echo "== demo WITHOUT the change:"; (cd "$S" && PYTHONPATH="$S" /venv/bin/python /tmp/demo_$ID.py >/tmp/demo_out_$ID.txt 2>&1; echo "exit=$?"; tail -2 /tmp/demo_out_$ID.txt | cut -c1-200)
git -C "$S" apply "$PATCH" || { echo "PATCH DOES NOT APPLY"; git -C /repo worktree remove --force "$S"; exit 2; }
echo "== tests WITH the change:"; (cd "$S" && PYTHONPATH="$S" /venv/bin/python -m pytest -q -p no:cacheprovider 2>&1 | tail -1)
echo "== demo WITH the change:"; (cd "$S" && PYTHONPATH="$S" /venv/bin/python /tmp/demo_$ID.py >/tmp/demo_out_$ID.txt 2>&1; echo "exit=$?"; tail -2 /tmp/demo_out_$ID.txt | cut -c1-200)
if [ -n "$SEED_IN_WORKTREE" ]; then
  # /repo is in use by another run: check the patched scratch worktree instead of patching /repo
  for P in "$@"; do
    (cd /verif && VERIF_REPO="$S" ./check "$P" --tier quick > /tmp/seed_${ID}_$P.log 2>&1; echo "== check $P exit=$? violations=$(grep -c '^VIOLATION' /tmp/seed_${ID}_$P.log)"; grep -A1 '^VIOLATION' /tmp/seed_${ID}_$P.log | grep -v '^VIOLATION\|^--' | head -2 | cut -c1-300; grep MACHINERY /tmp/seed_${ID}_$P.log | cut -c1-300)
  done
  git -C /repo worktree remove --force "$S"
  exit 0
fi
git -C /repo worktree remove --force "$S"
git -C /repo apply "$PATCH" || { echo "PATCH DOES NOT APPLY TO /repo"; exit 2; }
for P in "$@"; do
  (cd /verif && ./check "$P" --tier quick > /tmp/seed_${ID}_$P.log 2>&1; echo "== check $P exit=$? violations=$(grep -c '^VIOLATION' /tmp/seed_${ID}_$P.log)"; grep -A1 '^VIOLATION' /tmp/seed_${ID}_$P.log | grep -v '^VIOLATION\|^--' | head -2 | cut -c1-300; grep MACHINERY /tmp/seed_${ID}_$P.log | cut -c1-300)
done
git -C /repo checkout -- . ; git -C /repo status --short | head -3
