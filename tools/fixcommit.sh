#!/bin/sh
# usage: fixcommit.sh <message-file>
cd /repo || exit 1
if /venv/bin/python -m pytest -q -p no:cacheprovider 2>&1 | tail -1 | grep -q "^500 passed"; then
  git commit -q -a -F "$1" && git log --oneline | head -1
else
  echo "TESTS FAILED - not committed"; /venv/bin/python -m pytest -q -p no:cacheprovider 2>&1 | tail -15; exit 1
fi
