#!/usr/bin/env python3
"""reseed.py [-j N] [seed ids...] -- re-run every archived seeded change against the checks recorded as detecting it.

Each patch is applied to a scratch worktree of /repo HEAD (never to /repo), the owning quick checks are pointed at it with
VERIF_REPO, and the worktree is removed.  Prints one line per (seed, check): CAUGHT / MISSED / STALE (patch no longer applies,
e.g. because the tree was repaired there) / BROKEN (exit 2)."""
import json, os, subprocess, sys, tempfile
from concurrent.futures import ThreadPoolExecutor

VERIF = os.path.dirname(os.path.dirname(os.path.abspath(__file__)))


def one(sid):
    d = os.path.join(VERIF, "seeded", sid)
    meta = json.load(open(os.path.join(d, "meta.json")))
    props = [p for p in meta.get("detected_by", []) if p.startswith("C") and len(p) == 3]
    wt = tempfile.mkdtemp(prefix=f"reseed_{sid[:3]}_", dir="/tmp")
    os.rmdir(wt)
    out = []
    try:
        subprocess.run(["git", "-C", "/repo", "worktree", "add", "-q", wt, "HEAD"], check=True, capture_output=True)
        r = subprocess.run(["git", "-C", wt, "apply", os.path.join(d, "patch.diff")], capture_output=True)
        if r.returncode:
            return [f"{sid}: STALE (patch does not apply to the current tree)"]
        for p in props:
            r = subprocess.run([os.path.join(VERIF, "check"), p, "--tier", "quick", "--seed", "4242"], capture_output=True, text=True,
                               env=dict(os.environ, VERIF_REPO=wt))
            n = r.stdout.count("\nVIOLATION ") + r.stdout.startswith("VIOLATION ")
            out.append(f"{sid}: {p} " + ("CAUGHT" if r.returncode == 1 else "MISSED" if r.returncode == 0 else "BROKEN") + f" (exit {r.returncode}, {n} violations)")
    finally:
        subprocess.run(["git", "-C", "/repo", "worktree", "remove", "--force", wt], capture_output=True)
    return out


if __name__ == "__main__":
    args = sys.argv[1:]
    j = 3
    if args[:1] == ["-j"]:
        j, args = int(args[1]), args[2:]
    seeds = sorted(s for s in os.listdir(os.path.join(VERIF, "seeded")) if not args or any(s.startswith(a) for a in args))
    with ThreadPoolExecutor(j) as ex:
        for lines in ex.map(one, seeds):
            for l in lines:
                print(l, flush=True)
