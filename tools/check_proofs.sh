#!/bin/sh
# TLAPS proofs of unbounded facts about specification operators (proofs/*.tla).  The operators are restated in the proof
# module; this script first checks that the restatement is literally the definition in spec/Ints.tla, then runs tlapm.
cd "$(dirname "$0")/.." || exit 2
for op in 'AlignUp(o, a) ==' 'AlignRel(p, start, a) =='; do
  a=$(grep -F "$op" spec/Ints.tla); b=$(grep -F "$op" proofs/AlignLemmas.tla)
  [ -n "$a" ] && [ "$a" = "$b" ] || { echo "MISMATCH: '$op' differs between spec/Ints.tla and proofs/AlignLemmas.tla"; exit 1; }
done
rm -rf proofs/.tlacache
out=$(cd proofs && timeout 1800 tlapm AlignLemmas.tla 2>&1); rc=$?
rm -rf proofs/.tlacache
echo "$out" | grep -E "obligations|ERROR" | head -5
[ $rc -eq 0 ] && echo "$out" | grep -q "All [0-9]* obligations proved" && { echo "PROOFS OK"; exit 0; }
echo "PROOFS FAILED"; exit 1
