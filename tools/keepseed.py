#!/usr/bin/env python3
"""keepseed.py <seed worktree> <seed id> <detected by: comma list> <missed by: comma list> -- archive a confirmed seeded change."""
import json, os, shutil, sys
w, sid, det, miss = sys.argv[1:5]
d = f"/verif/seeded/{sid}"
os.makedirs(d, exist_ok=True)
shutil.copy(f"{w}/SEED/patch.diff", d)
shutil.copy(f"{w}/SEED/demo.py", d)
m = json.load(open(f"{w}/SEED/meta.json"))
m["confirmed"] = "patch applied to a fresh scratch worktree of /repo HEAD: pytest 500 passed; demo.py exits non-zero with the patch and 0 without (tools/seedtest.sh)"
m["ran"] = "git -C /repo apply patch.diff; ./check <property> --tier quick; git -C /repo checkout -- ."
m["detected_by"] = [x for x in det.split(",") if x]
m["missed_by"] = [x for x in miss.split(",") if x]
json.dump(m, open(f"{d}/meta.json", "w"), indent=1)
print("kept", d, m["detected_by"], m["missed_by"])
