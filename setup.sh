#!/bin/sh
# Offline setup: nothing to build; parse every TLA+ module once so that a broken specification fails here.
cd "$(dirname "$0")" || exit 1
rc=0
for f in spec/*.tla mc/*.tla trace/*.tla gen/*.tla; do
  [ -f "$f" ] || continue
  out=$(java -DTLA-Library="$PWD/spec:$PWD/mc:$PWD/trace:$PWD/gen" -cp /opt/veriftools/tla/tla2tools.jar:/opt/veriftools/tla/CommunityModules-deps.jar tla2sany.SANY "$f" 2>&1)
  if echo "$out" | grep -q "Errors\|Fatal\|Could not"; then echo "SANY failed on $f"; echo "$out" | tail -20; rc=1; fi
done
/venv/bin/python -c "import dissect.cstruct" || rc=1
exit $rc
